#!/bin/bash
# soak_thorough.sh <first seed> <rounds> [budget_s] [workers]: the thorough tier of every property in
# turn, a new seed per round; evidence/replays kept apart from the committed ones.
first="$1"; rounds="$2"; budget="${3:-600}"; workers="${4:-5}"
for ((r=0; r<rounds; r++)); do
  for prop in c06 c09 c12 c13 c18; do
    selftest/soak.sh "$prop" $((first+r)) 1 "$budget" "$workers" thorough
  done
done

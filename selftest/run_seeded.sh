#!/bin/bash
# Run every confirmed seeded change in /verif/seeded against its property's quick check and
# write seeded/SUMMARY.txt (caught / missed, with the first violation line).
cd /verif || exit 2
out=seeded/SUMMARY.txt
echo "seeded changes vs quick checks, $(date -u +%FT%TZ), /repo $(git -C /repo rev-parse --short HEAD), /verif $(git rev-parse --short HEAD)" > $out
for d in seeded/*/; do
  id=$(basename "$d")
  [ -f "$d/patch.diff" ] || continue
  selftest/confirm_seeded.sh "$id" "$d" quick ${1:-} > /tmp/run_seeded_$id.log 2>&1
  ex=$(grep -o "check_exit=[0-9]*" "$d/confirmation.txt" | head -1)
  first=$(grep -m1 "^violation" "$d/confirmation.txt" | cut -c1-160)
  suite=$(grep -m1 "passed" "$d/confirmation.txt")
  if [ "$ex" = "check_exit=1" ]; then verdict=CAUGHT; else verdict=MISSED; fi
  echo "$id $verdict ($ex; suite: $suite) $first" >> $out
done
cat $out

"""Determinism self-test: the event-log digest of a run must be a pure function of
(VERIF_SEED, property, run index) and the code -- independent of the worker count, of
what other runs execute concurrently, of the process that hosts the batch and of
Python's hash randomisation.

  ./check selftest-determinism [N]     N seeds per property (default 200)

For every property: N runs at 16 workers, the same N at 3 workers, and the same N in
fresh interpreters under PYTHONHASHSEED 0, 1 and 4242; all digests must agree.
Exit 0 = deterministic, 2 = divergence (a harness defect, never a VIOLATION).
"""
import importlib
import json
import os
import subprocess
import sys

PROPS = ["c06", "c09", "c12", "c13", "c18"]


def digests(prop_name, n, workers, seed):
    from sim.kit import driver, forkrun, rng, target

    target.load()
    prop = importlib.import_module("sim.props." + prop_name)
    cfg = dict(prop.TIERS["quick"])
    cfg["tier"] = "quick"
    pool = forkrun.ForkPool(workers, timeout=cfg.get("run_timeout", 60.0) * 2)
    args = [(prop, rng.derive_int(seed, prop.ID, i), dict(cfg, index=i, batch_seed=seed), False)
            for i in range(n)]
    out = {}
    for idx, arg, doc in pool.imap_unordered(driver._gen_and_run, args):
        if doc.get("status") == forkrun.STATUS_OK:
            out[str(idx)] = doc["value"]["digest"]
        else:
            out[str(idx)] = "status:" + str(doc.get("status")) + ":" + str(doc.get("error", ""))[:80]
    return out


def main(argv):
    if argv and argv[0] == "--emit":
        prop_name, n, workers, seed = argv[1], int(argv[2]), int(argv[3]), int(argv[4])
        print("DIGESTS " + json.dumps(digests(prop_name, n, workers, seed), sort_keys=True))
        return 0
    n = int(argv[0]) if argv else 200
    seed = int(os.environ.get("VERIF_SEED", "0"))
    bad = 0
    total = 0
    for prop_name in PROPS:
        base = digests(prop_name, n, 16, seed)
        variants = {"workers=3": digests(prop_name, n, 3, seed)}
        for hs in ("0", "1", "4242"):
            env = dict(os.environ, PYTHONHASHSEED=hs)
            proc = subprocess.run([sys.executable, "-m", "selftest.determinism", "--emit",
                                   prop_name, str(n), "8", str(seed)], env=env, cwd="/verif",
                                  capture_output=True, text=True, timeout=3600)
            line = [ln for ln in proc.stdout.split("\n") if ln.startswith("DIGESTS ")]
            if not line:
                print("%s: fresh interpreter PYTHONHASHSEED=%s produced no digests\n%s" % (
                    prop_name, hs, proc.stderr[-2000:]))
                bad += 1
                continue
            variants["fresh,PYTHONHASHSEED=%s,workers=8" % hs] = json.loads(line[0][8:])
        errs = sum(1 for v in base.values() if v.startswith("status:"))
        for name, got in variants.items():
            diff = [k for k in base if base[k] != got.get(k)]
            total += len(base)
            if diff:
                bad += len(diff)
                print("%s: %d of %d digests differ under %s (first run index %s: %s vs %s)" % (
                    prop_name, len(diff), len(base), name, diff[0], base[diff[0]],
                    got.get(diff[0])))
        print("%s: %d seeds x %d re-executions compared, harness-status runs=%d" % (
            prop_name, n, len(variants), errs))
        if errs:
            bad += errs
    print("determinism: %d comparisons, %d mismatches" % (total, bad))
    return 0 if bad == 0 else 2


if __name__ == "__main__":
    sys.exit(main(sys.argv[1:]))

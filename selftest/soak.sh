#!/bin/bash
# soak.sh <prop> <first seed> <count> [budget_s] [workers] [tier]: many quick-tier batches with different seeds,
# evidence/replays kept apart from the committed ones.  Prints one line per seed.
prop="$1"; first="$2"; count="$3"; budget="${4:-120}"; workers="${5:-6}"; tier="${6:-quick}"
mkdir -p soak_out
for ((s=first; s<first+count; s++)); do
  env VERIF_SEED=$s VERIF_BUDGET_S=$budget VERIF_WORKERS=$workers VERIF_EVIDENCE_DIR=soak_out/ev_$s VERIF_REPLAY_DIR=soak_out/rp \
    ./check "$prop" "$tier" > soak_out/${prop}_$s.log 2>&1
  echo "$prop seed=$s exit=$? $(grep '^runs=' soak_out/${prop}_$s.log | cut -c1-70)"
  grep -E "^violation|^HARNESS" soak_out/${prop}_$s.log | cut -c1-600
done

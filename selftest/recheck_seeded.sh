#!/bin/bash
# recheck_seeded.sh [budget_s] [workers]: every confirmed seeded change in /verif/seeded against its
# property's quick check only (the test-suite and demonstration steps were done when the change was
# confirmed, see <id>/confirmation.txt).  Writes seeded/SUMMARY.txt.  Scratch worktrees live in /tmp
# and are removed one by one.
cd /verif || exit 2
budget="${1:-}"; workers="${2:-16}"
out=seeded/SUMMARY.txt
echo "seeded changes vs quick checks (checks only), $(date -u +%FT%TZ), /repo $(git -C /repo rev-parse --short HEAD), /verif $(git rev-parse --short HEAD)" > $out
for d in seeded/*/; do
  id=$(basename "$d")
  [ -f "$d/patch.diff" ] || continue
  prop=$(/venv/bin/python -c "import json;d=json.load(open('$d/meta.json'));print((d.get('check') or d['property']).lower())")
  wt="/tmp/recheck_$id"
  git -C /repo worktree remove --force "$wt" >/dev/null 2>&1; rm -rf "$wt"
  git -C /repo worktree add -q --detach "$wt" HEAD || { echo "$id NO-WORKTREE" >> $out; continue; }
  if ! git -C "$wt" apply "/verif/$d/patch.diff"; then
    echo "$id PATCH-DOES-NOT-APPLY" >> $out
  else
    log="/tmp/recheck_$id.log"
    env VERIF_REPO_SRC="$wt/src" VERIF_EVIDENCE_DIR="/tmp/recheck_ev_$id" VERIF_REPLAY_DIR="/tmp/recheck_rp_$id" \
      VERIF_SHRINK_S=3 VERIF_WORKERS=$workers ${budget:+VERIF_BUDGET_S=$budget} ./check "$prop" quick > "$log" 2>/dev/null
    ex=$?
    first=$(grep -m1 "^violation" "$log" | cut -c1-150)
    if [ "$ex" = "1" ]; then verdict=CAUGHT; else verdict="MISSED(exit=$ex)"; fi
    echo "$id $verdict $first" >> $out
    rm -rf "$log" "/tmp/recheck_ev_$id" "/tmp/recheck_rp_$id"
  fi
  git -C /repo worktree remove --force "$wt" >/dev/null 2>&1; rm -rf "$wt"
done
git -C /repo worktree prune
cat $out

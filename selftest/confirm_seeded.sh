#!/bin/bash
# Confirm a seeded breaking change independently and try the checks against it.
#   selftest/confirm_seeded.sh <id> <dir with patch.diff demo.py meta.json> [check tier] [budget_s]
# 1. fresh scratch worktree of /repo HEAD (outside /repo and /verif), patch applied
# 2. the unedited test suite must pass with the patch
# 3. demo.py must FAIL with the patch and PASS without it
# 4. the property's check is run against the patched scratch tree (VERIF_REPO_SRC)
# The scratch worktree is removed afterwards.  Nothing is ever applied to /repo here.
set -u
id="$1"; src="$2"; tier="${3:-quick}"; budget="${4:-}"
dest="/verif/seeded/$id"
mkdir -p "$dest"
for f in patch.diff demo.py meta.json; do
  [ "$(readlink -f "$src/$f")" = "$(readlink -f "$dest/$f")" ] || cp "$src/$f" "$dest/$f"
done
prop=$(/venv/bin/python -c "import json;d=json.load(open('$dest/meta.json'));print(d.get('check') or d['property'])")
wt="/tmp/confirm_$id"
git -C /repo worktree remove --force "$wt" >/dev/null 2>&1
rm -rf "$wt"
git -C /repo worktree add -q --detach "$wt" HEAD || exit 2
res="$dest/confirmation.txt"
{
echo "seeded change $id  property=$prop  base=$(git -C /repo rev-parse --short HEAD)"
echo "--- apply"
if git -C "$wt" apply "$dest/patch.diff"; then echo "patch applies cleanly"; else echo "PATCH DOES NOT APPLY"; fi
echo "--- test suite with the change"
(cd "$wt" && PYTHONPATH="$wt/src" timeout 1200 /venv/bin/python -m pytest -q -p no:cacheprovider --timeout=900 -n 8 2>&1 | tail -1)
echo "--- demo with the change (expect FAIL / exit 1)"
(cd "$wt" && PYTHONPATH="$wt/src" timeout 300 /venv/bin/python "$dest/demo.py" 2>&1 | tail -5; echo "exit=${PIPESTATUS[0]}")
echo "--- check $prop $tier against the changed tree"
(cd /verif && env VERIF_REPO_SRC="$wt/src" VERIF_EVIDENCE_DIR="/tmp/confirm_ev_$id" VERIF_REPLAY_DIR="/tmp/confirm_rp_$id" ${budget:+VERIF_BUDGET_S=$budget} ./check "$(echo "$prop" | tr A-Z a-z)" "$tier" 2>/dev/null | grep -E "^(violation|VIOLATION|KNOWN-FINDING|runs=|HARNESS)" | cut -c1-400; echo "check_exit=${PIPESTATUS[0]}")
git -C "$wt" checkout -q -- .
echo "--- demo without the change (expect PASS / exit 0)"
(cd "$wt" && PYTHONPATH="$wt/src" timeout 300 /venv/bin/python "$dest/demo.py" 2>&1 | tail -2; echo "exit=${PIPESTATUS[0]}")
} > "$res" 2>&1
git -C /repo worktree remove --force "$wt" >/dev/null 2>&1
rm -rf "$wt" "/tmp/confirm_ev_$id" "/tmp/confirm_rp_$id"
cat "$res"

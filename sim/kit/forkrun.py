"""Fork-per-run execution.

The batch driver is a template process that has imported fparser but never
called ParserFactory.create().  Every run executes in a child forked from that
template, so no run can see what another left in fparser's process-global state,
and a replay file is a pure function of the file and the code.

Two primitives:
  call_in_child(fn, arg, timeout)   blocking; used by run children for reference
                                     parses and "restart" operations.
  ForkPool(workers).map(fn, args)   up to `workers` children at once, results
                                     yielded as they complete (with their index).
A child reports by writing one JSON document to a pipe and _exit()ing; a child
that dies, writes garbage or exceeds the wall-clock watchdog yields a status
other than "ok" and is *never* counted as a pass.
"""
import errno
import faulthandler
import json
import os
import select
import signal
import sys
import time
import traceback

STATUS_OK = "ok"
STATUS_TIMEOUT = "timeout"
STATUS_CRASH = "crash"
STATUS_HARNESS = "harness-error"


_DEPTH = 0


def _kill(pid):
    """Kill a run child together with any grandchildren (own process group)."""
    try:
        os.kill(pid, signal.SIGUSR1)
        time.sleep(0.05)
    except (ProcessLookupError, PermissionError):
        pass
    for killer in (os.killpg, os.kill):
        try:
            killer(pid, signal.SIGKILL)
        except (ProcessLookupError, PermissionError):
            pass


def _child_main(fn, arg, wfd, timeout):
    """Runs in the forked child; never returns."""
    global _DEPTH
    code = 0
    try:
        if _DEPTH == 0:
            try:
                os.setpgid(0, 0)
            except OSError:
                pass
        _DEPTH += 1
        # A hang inside C code (re) is invisible to any Python-level budget; the parent's
        # watchdog sends SIGUSR1 before SIGKILL so that the site of the hang is printed.
        # (No faulthandler.dump_traceback_later here: its watchdog *thread* does not survive
        # fork and deadlocks the grandchildren that run children fork for reference parses.)
        try:
            faulthandler.register(signal.SIGUSR1, file=sys.stderr, all_threads=False)
        except Exception:
            pass
        try:
            out = {"status": STATUS_OK, "value": fn(arg)}
        except BaseException as err:  # harness bug inside the child
            out = {
                "status": STATUS_HARNESS,
                "error": "%s: %s" % (type(err).__name__, err),
                "traceback": traceback.format_exc(),
            }
        data = json.dumps(out, sort_keys=True).encode()
        view = memoryview(data)
        while view:
            n = os.write(wfd, view)
            view = view[n:]
    except BaseException:
        code = 3
    finally:
        os._exit(code)


def _spawn(fn, arg, timeout):
    rfd, wfd = os.pipe()
    sys.stdout.flush()
    sys.stderr.flush()
    pid = os.fork()
    if pid == 0:
        os.close(rfd)
        _child_main(fn, arg, wfd, timeout)
    os.close(wfd)
    return pid, rfd


def _finish(pid, rfd, buf, killed):
    os.close(rfd)
    try:
        _, st = os.waitpid(pid, 0)
    except ChildProcessError:
        st = 0
    if killed:
        return {"status": STATUS_TIMEOUT}
    try:
        out = json.loads(b"".join(buf).decode())
        if not isinstance(out, dict) or "status" not in out:
            raise ValueError("bad child document")
        return out
    except Exception as err:
        return {"status": STATUS_CRASH, "wait_status": st, "error": str(err)}


def call_in_child(fn, arg, timeout=60.0):
    """Run fn(arg) in a forked child and return its result document."""
    pid, rfd = _spawn(fn, arg, timeout)
    buf = []
    deadline = time.monotonic() + timeout
    killed = False
    while True:
        left = deadline - time.monotonic()
        if left <= 0:
            _kill(pid)
            killed = True
            break
        try:
            r, _, _ = select.select([rfd], [], [], left)
        except InterruptedError:
            continue
        if not r:
            continue
        chunk = os.read(rfd, 1 << 16)
        if not chunk:
            break
        buf.append(chunk)
    return _finish(pid, rfd, buf, killed)


class ForkPool:
    """Run fn over a stream of args with at most `workers` live children."""

    def __init__(self, workers, timeout=60.0):
        self.workers = max(1, int(workers))
        self.timeout = timeout

    def imap_unordered(self, fn, args_iter, stop=lambda: False):
        """Yields (index, arg, result_document). `stop()` is polled before a new
        child is started; children already running are always drained."""
        live = {}  # rfd -> [pid, idx, arg, buf, deadline]
        it = enumerate(args_iter)
        exhausted = False
        while True:
            while not exhausted and len(live) < self.workers and not stop():
                try:
                    idx, arg = next(it)
                except StopIteration:
                    exhausted = True
                    break
                pid, rfd = _spawn(fn, arg, self.timeout)
                live[rfd] = [pid, idx, arg, [], time.monotonic() + self.timeout]
            if not live:
                if exhausted or stop():
                    return
                continue
            now = time.monotonic()
            wait = max(0.0, min(v[4] for v in live.values()) - now)
            try:
                ready, _, _ = select.select(list(live), [], [], min(wait, 1.0))
            except InterruptedError:
                continue
            for rfd in ready:
                ent = live[rfd]
                try:
                    chunk = os.read(rfd, 1 << 16)
                except OSError as err:
                    if err.errno == errno.EINTR:
                        continue
                    chunk = b""
                if chunk:
                    ent[3].append(chunk)
                    continue
                del live[rfd]
                yield ent[1], ent[2], _finish(ent[0], rfd, ent[3], False)
            now = time.monotonic()
            for rfd in [f for f, v in live.items() if v[4] <= now]:
                ent = live.pop(rfd)
                _kill(ent[0])
                yield ent[1], ent[2], _finish(ent[0], rfd, ent[3], True)


class PristineServer:
    """A helper process forked *now* (while the caller is still pristine) that stays
    pristine: every request is served in a fresh child of the helper, i.e. in a copy of
    the image as it was when the server was started.  Used for "restart and load" and
    other fresh-process references needed after the caller has started mutating state.
    Protocol: one JSON document per line in each direction."""

    def __init__(self, handler, timeout=60.0):
        self.timeout = timeout
        req_r, req_w = os.pipe()
        res_r, res_w = os.pipe()
        sys.stdout.flush()
        sys.stderr.flush()
        pid = os.fork()
        if pid == 0:
            code = 0
            try:
                os.close(req_w)
                os.close(res_r)
                fin = os.fdopen(req_r, "rb")
                while True:
                    line = fin.readline()
                    if not line:
                        break
                    req = json.loads(line.decode())
                    doc = call_in_child(handler, req, timeout)
                    data = json.dumps(doc, sort_keys=True).encode() + b"\n"
                    view = memoryview(data)
                    while view:
                        n = os.write(res_w, view)
                        view = view[n:]
            except BaseException:
                code = 4
            finally:
                os._exit(code)
        os.close(req_r)
        os.close(res_w)
        self.pid = pid
        self._req = req_w
        self._res = os.fdopen(res_r, "rb")

    def call(self, request):
        data = json.dumps(request, sort_keys=True).encode() + b"\n"
        view = memoryview(data)
        while view:
            n = os.write(self._req, view)
            view = view[n:]
        deadline = time.monotonic() + self.timeout + 5.0
        while True:
            left = deadline - time.monotonic()
            if left <= 0:
                return {"status": STATUS_TIMEOUT}
            r, _, _ = select.select([self._res], [], [], left)
            if r:
                line = self._res.readline()
                if not line:
                    return {"status": STATUS_CRASH, "error": "pristine server died"}
                return json.loads(line.decode())

    def close(self):
        try:
            os.close(self._req)
        except OSError:
            pass
        try:
            self._res.close()
        except OSError:
            pass
        try:
            os.waitpid(self.pid, 0)
        except ChildProcessError:
            pass

"""One integer decides everything: every PRNG is derived from VERIF_SEED by
hashing a label path, so streams are independent of each other and of the order
in which they are created."""
import hashlib
import random


def derive_int(*parts) -> int:
    h = hashlib.sha256(":".join(str(p) for p in parts).encode()).digest()
    return int.from_bytes(h[:8], "big")


def derive(*parts) -> random.Random:
    return random.Random(derive_int(*parts))


class Streams:
    """Named sub-streams of one run seed."""

    def __init__(self, run_seed: int):
        self.run_seed = run_seed
        self._cache = {}

    def __call__(self, name: str) -> random.Random:
        r = self._cache.get(name)
        if r is None:
            r = self._cache[name] = derive(self.run_seed, name)
        return r

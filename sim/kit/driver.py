"""Batch driver shared by all property checks.

A property module provides
    ID                          e.g. "C12"
    TIERS                       {"quick": {"budget_s":…, "max_runs":…, …}, "thorough": {…}}
    generate(run_seed, tier_cfg) -> case      (JSON-able; everything a run does is in it)
    execute(case)                -> result    {"events": [...], "violations": [...],
                                               "stats": {...}, "nontrivial": bool,
                                               "state_keys": [...], "discarded": reason|None}
    shrink_candidates(case)      -> iterator of smaller cases
    RULE, ASSUMPTIONS, COMPONENTS  texts for the evidence file
A violation is {"clause":…, "site":…, "detail":…}; its signature is (clause, site).

Exit codes: 0 held (KNOWN-FINDING lines for listed findings), 1 VIOLATION, 2 harness error.
"""
import hashlib
import json
import os
import sys
import time

from . import evidence, findings, forkrun, rng, target

HARNESS_EXIT = 2


def event_digest(events):
    return hashlib.sha256(json.dumps(events, sort_keys=True).encode()).hexdigest()[:20]


def _run_case_in_child(arg):
    """Executes inside a forked child of the template process."""
    prop, case, want_case = arg
    res = prop.execute(case)
    out = {
        "digest": event_digest(res.get("events", [])),
        "violations": res.get("violations", []),
        "stats": res.get("stats", {}),
        "nontrivial": bool(res.get("nontrivial")),
        "state_keys": res.get("state_keys", []),
        "discarded": res.get("discarded"),
        "nevents": len(res.get("events", [])),
    }
    if want_case or out["violations"]:
        out["case"] = case
    if want_case:
        out["events"] = res.get("events", [])
    return out


def _gen_and_run(arg):
    prop, run_seed, tier_cfg, want_case = arg
    case = prop.generate(run_seed, tier_cfg)  # tier_cfg["index"] = run index within the batch
    case["run_seed"] = run_seed
    return _run_case_in_child((prop, case, want_case))


def run_case(prop, case, timeout=120.0, want_events=False):
    """Execute one explicit case in a fresh child (used by replay and shrinking)."""
    doc = forkrun.call_in_child(_run_case_in_child, (prop, case, want_events), timeout)
    return doc


def signatures(doc_value):
    return sorted({(v["clause"], v["site"]) for v in doc_value.get("violations", [])})


def shrink(prop, case, sig, budget_s=120.0, timeout=120.0):
    """Delta-debugging loop: keep a candidate iff it fails with the same signature."""
    deadline = time.monotonic() + budget_s
    tried = 0
    improved = True
    while improved and time.monotonic() < deadline:
        improved = False
        for cand in prop.shrink_candidates(case):
            if time.monotonic() >= deadline:
                break
            tried += 1
            doc = run_case(prop, cand, timeout)
            if doc.get("status") != forkrun.STATUS_OK:
                continue
            if sig in [tuple(s) for s in signatures(doc["value"])]:
                case = cand
                improved = True
                break
    return case, tried


def write_replay(prop, case, sig, detail, seed, tier):
    d = os.path.join(os.environ.get("VERIF_REPLAY_DIR") or "/verif/replays", prop.ID)
    os.makedirs(d, exist_ok=True)
    tag = hashlib.sha256(("%s|%s" % sig).encode()).hexdigest()[:10]
    path = os.path.join(d, "%s-%s-%s.json" % (sig[0].replace(" ", "_").replace("/", "_")[:40], tag,
                                               case.get("run_seed", seed)))
    case = {k: v for k, v in case.items() if not k.startswith("_cache_")}
    doc = {"property": prop.ID, "seed": seed, "tier": tier, "signature": list(sig),
           "detail": detail, "case": case, "tree": target.tree_id()}
    with open(path, "w") as fobj:
        json.dump(doc, fobj, indent=1, sort_keys=True)
    return path


def replay(prop, path):
    with open(path) as fobj:
        doc = json.load(fobj)
    sig = tuple(doc["signature"])
    res = run_case(prop, doc["case"], want_events=True)
    if res.get("status") != forkrun.STATUS_OK:
        print("replay: harness status %s: %s" % (res.get("status"), res.get("error", "")))
        if res.get("traceback"):
            print(res["traceback"])
        return HARNESS_EXIT
    sigs = [tuple(s) for s in signatures(res["value"])]
    print("replay digest=%s signatures=%s" % (res["value"]["digest"], sigs))
    for vio in res["value"]["violations"]:
        print("  %s @ %s: %s" % (vio["clause"], vio["site"], str(vio.get("detail"))[:300]))
    if sig in sigs:
        print("VIOLATION property=%s replay=%s" % (prop.ID, path))
        return 1
    print("replay: signature %s not reproduced" % (sig,))
    return 0


def main(prop, tier, replay_path=None):
    seed = int(os.environ.get("VERIF_SEED", "0"))
    print("VERIF_SEED=%d property=%s tier=%s" % (seed, prop.ID, tier))
    sys.stdout.flush()
    target.load()
    if replay_path:
        return replay(prop, replay_path)
    cfg = dict(prop.TIERS[tier])
    if os.environ.get("VERIF_BUDGET_S"):
        cfg["budget_s"] = float(os.environ["VERIF_BUDGET_S"])
    if os.environ.get("VERIF_MAX_RUNS"):
        cfg["max_runs"] = int(os.environ["VERIF_MAX_RUNS"])
    workers = int(os.environ.get("VERIF_WORKERS", "0")) or min(16, os.cpu_count() or 1)
    cfg["tier"] = tier
    t0 = time.monotonic()
    deadline = t0 + cfg["budget_s"]
    max_runs = cfg.get("max_runs", 10 ** 9)
    run_timeout = cfg.get("run_timeout", 60.0)

    if hasattr(prop, "prepare"):
        # computed once in the (pristine) template process, e.g. fresh-process references
        # for a fixed alphabet of programs; handed to the generators through cfg
        cfg.update(prop.prepare(cfg) or {})
    agg = evidence.Aggregate(prop, tier, seed)
    known = findings.load(prop.ID)
    pool = forkrun.ForkPool(workers, timeout=run_timeout)
    n_samples = 3
    det_every = cfg.get("determinism_every", 25)

    def args():
        i = 0
        while i < max_runs:
            yield (prop, rng.derive_int(seed, prop.ID, i), dict(cfg, index=i, batch_seed=seed),
                   i < n_samples)
            i += 1

    harness_errors = []
    timeouts = []
    timeout_cfg = {}
    vio_cases = {}  # signature -> (case, detail)
    redo = []  # (run_seed, digest) to re-execute for the determinism self-check
    for idx, arg, doc in pool.imap_unordered(_gen_and_run, args(),
                                             stop=lambda: time.monotonic() >= deadline):
        status = doc.get("status")
        if status == forkrun.STATUS_OK:
            val = doc["value"]
            agg.add(idx, arg[1], val)
            for vio in val["violations"]:
                sig = (vio["clause"], vio["site"])
                if sig not in vio_cases:
                    vio_cases[sig] = (val.get("case"), vio.get("detail"))
            if idx % det_every == 0:
                redo.append((arg[1], val["digest"], arg[2]))
        elif status == forkrun.STATUS_TIMEOUT:
            timeouts.append(arg[1])
            timeout_cfg[arg[1]] = arg[2]
        else:
            harness_errors.append((arg[1], doc))
    # ---- determinism self-check: same seed twice must give the same event log
    mismatches = 0
    redone = 0
    if redo:
        red_pool = forkrun.ForkPool(max(1, workers // 2), timeout=run_timeout)
        red_args = [(prop, s, c, False) for s, _, c in redo[: cfg.get("determinism_max", 60)]]
        for idx, arg, doc in red_pool.imap_unordered(_gen_and_run, red_args):
            redone += 1
            if doc.get("status") != forkrun.STATUS_OK or doc["value"]["digest"] != redo[idx][1]:
                mismatches += 1
    agg.determinism = {"reexecuted": redone, "mismatches": mismatches}
    # ---- wall-clock kills: candidate hang, confirmed by a solo re-run on an idle pool
    confirmed_hangs = []
    for run_seed in timeouts[:5]:
        doc = forkrun.call_in_child(_gen_and_run, (prop, run_seed, timeout_cfg[run_seed], True),
                                    timeout=run_timeout * 2)
        if doc.get("status") == forkrun.STATUS_TIMEOUT:
            confirmed_hangs.append(run_seed)
        elif doc.get("status") == forkrun.STATUS_OK:
            agg.add(-1, run_seed, doc["value"])
            for vio in doc["value"]["violations"]:
                sig = (vio["clause"], vio["site"])
                vio_cases.setdefault(sig, (doc["value"].get("case"), vio.get("detail")))
        else:
            harness_errors.append((run_seed, doc))
    agg.timeouts = {"first_pass": len(timeouts), "confirmed_solo": len(confirmed_hangs)}

    # ---- verdict
    exit_code = 0
    new_violations = 0
    for sig in sorted(vio_cases):
        case, detail = vio_cases[sig]
        entry = findings.match(known, sig)
        if entry is not None and entry.get("status") == "known":
            print("KNOWN-FINDING: property=%s %s @ %s -- %s" % (prop.ID, sig[0], sig[1],
                                                                 entry.get("what", "")))
            agg.known_seen.append({"clause": sig[0], "site": sig[1]})
            continue
        new_violations += 1
        small, tried = (case, 0)
        if case is not None and hasattr(prop, "shrink_candidates") and \
                new_violations <= cfg.get("shrink_max_signatures", 4):
            small, tried = shrink(prop, case, sig,
                                  budget_s=float(os.environ.get("VERIF_SHRINK_S") or
                                                 cfg.get("shrink_budget_s", 30.0)),
                                  timeout=run_timeout)
        path = write_replay(prop, small, sig, detail, seed, tier)
        print("violation %s @ %s (shrunk with %d trial runs): %s" % (sig[0], sig[1], tried,
                                                                      str(detail)[:400]))
        if entry is not None and entry.get("status") == "fixed":
            print("  (this signature is recorded as fixed in known_findings.json: it has returned)")
        print("VIOLATION property=%s replay=%s" % (prop.ID, path))
        exit_code = 1
    if confirmed_hangs and hasattr(prop, "hang_is_violation") and prop.hang_is_violation:
        sig = ("%s.d no-return-within-wall-bound" % prop.ID, "wall-watchdog")
        entry = findings.match(known, sig)
        if entry is None or entry.get("status") != "known":
            case = prop.generate(confirmed_hangs[0], timeout_cfg[confirmed_hangs[0]])
            case["run_seed"] = confirmed_hangs[0]
            path = write_replay(prop, case, sig, "no result within %ss, twice" % run_timeout, seed,
                                tier)
            print("VIOLATION property=%s replay=%s" % (prop.ID, path))
            new_violations += 1
            exit_code = 1
    elif confirmed_hangs:
        harness_errors.append((confirmed_hangs[0], {"status": "timeout-confirmed"}))
    agg.new_violations = new_violations
    agg.wall_s = time.monotonic() - t0
    agg.workers = workers
    agg.harness_errors = len(harness_errors)
    evidence.write(agg)
    agg.print_summary()
    if mismatches:
        print("HARNESS ERROR: %d of %d re-executed runs did not reproduce their event log"
              % (mismatches, redone))
        # a violation that was found and written as a replay file stands on its own
        return exit_code or HARNESS_EXIT
    if harness_errors:
        run_seed, doc = harness_errors[0]
        print("HARNESS ERROR: %d runs failed inside the harness; first: run_seed=%s status=%s %s"
              % (len(harness_errors), run_seed, doc.get("status"), doc.get("error", "")))
        if doc.get("traceback"):
            print(doc["traceback"])
        return exit_code or HARNESS_EXIT
    if agg.runs == 0:
        print("HARNESS ERROR: no run completed")
        return HARNESS_EXIT
    return exit_code

"""Known findings: /verif/known_findings.json, committed, never written at run time.

Entry: {"status": "known"|"fixed", "property": id, "clause": text, "site": text or
prefix ending in '*', "what": one line, "example": minimal failing input,
"commit": sha (for fixed)}.  Only status "known" suppresses a VIOLATION, and only
for the exact (clause, site) signature it names -- a different violation of the same
property is still reported.  A "fixed" entry suppresses nothing.
"""
import json
import os

PATH = "/verif/known_findings.json"


def load(prop_id):
    if not os.path.exists(PATH):
        return []
    with open(PATH) as fobj:
        doc = json.load(fobj)
    return [e for e in doc.get("findings", []) if e.get("property") == prop_id]


def match(entries, sig):
    clause, site = sig
    best = None
    for ent in entries:
        if ent.get("clause") != clause:
            continue
        pat = ent.get("site", "")
        if pat == site or (pat.endswith("*") and site.startswith(pat[:-1])):
            if ent.get("status") == "known":
                return ent
            best = ent
    return best

"""Thin, observable wrappers around fparser's public API: build a reader, run a
parse to an *outcome*, canonicalise a tree, probe the symbol tables.

An outcome is a JSON-able list:
  ["ok", repr_with_block_names_renumbered, str]        a tree was returned and printed
  ["syntax", "", raising site]                           FortranSyntaxError
  ["escape", exception type name, site]                  any other exception escaped
  ["exit", site]                                         SystemExit (process would die)
  ["budget", count]                                      step budget exceeded
  ["printfail", exception type name, site]               tree returned, str()/repr() raised
"""
import hashlib
import re
import sys

from . import host

_BLOCK_RE = re.compile(r"block:(\d+)")


def renumber_blocks(text):
    """Synthetic scope names of unnamed BLOCKs come from a process-wide counter by
    design; renumber them in order of first appearance before any comparison."""
    seen = {}

    def sub(match):
        key = match.group(1)
        if key not in seen:
            seen[key] = len(seen)
        return "block:#%d" % seen[key]

    return _BLOCK_RE.sub(sub, text)


def sha(text):
    return hashlib.sha256(text.encode("utf-8", "surrogatepass")).hexdigest()[:16]


def create(std):
    from fparser.two.parser import ParserFactory

    return ParserFactory().create(std=std)


def reader_options(opts):
    """opts: dict with optional keys ignore_comments, process_directives,
    include_omp_conditional_lines, include_dirs."""
    kw = {}
    for key in ("ignore_comments", "process_directives", "include_omp_conditional_lines",
                "include_dirs"):
        if key in opts and opts[key] is not None:
            kw[key] = opts[key]
    return kw


def make_reader(kind, source, opts, fs=None, stats=None, stream=None):
    """kind: 'string' (source = text), 'file' (source = path on SimFS),
    'filelike' (source = path, opened through SimFS and handed over as an object),
    'lines' (source = text served by a LineStream with stream faults; the form is
    detected from the full text exactly as FortranStringReader would)."""
    from fparser.common import readfortran as rf
    from fparser.common import sourceinfo

    kw = reader_options(opts)
    if kind == "string":
        return rf.FortranStringReader(source, **kw)
    if kind == "file":
        return rf.FortranFileReader(source, **kw)
    if kind == "filelike":
        return rf.FortranFileReader(fs.open_filelike(source), **kw)
    if kind == "lines":
        stream = stream or {}
        mode = sourceinfo.get_source_info_str(source)
        src = host.LineStream(source, stop_at=stream.get("stop_at"),
                              raise_at=stream.get("raise_at"), stats=stats)
        include_dirs = kw.pop("include_dirs", None)
        rdr = rf.FortranReaderBase(src, mode, kw.pop("ignore_comments", True), **kw)
        rdr.id = "lines"
        if include_dirs is not None:
            rdr.include_dirs = include_dirs[:]
        rdr._verif_stream = src
        return rdr
    raise ValueError(kind)


def classify_exception(err, tb):
    from fparser.two.utils import FortranSyntaxError

    if isinstance(err, FortranSyntaxError):
        return ["syntax", "", host.innermost_fparser_frame(tb)]
    if isinstance(err, host.StepBudgetExceeded):
        return ["budget", int(err.args[0]) if err.args else -1]
    if isinstance(err, SystemExit):
        return ["exit", host.exit_site(tb)]
    return ["escape", type(err).__name__, host.innermost_fparser_frame(tb)]


def parse_with(parser, reader, want_tree=False):
    """Run parser(reader), print the tree; returns (outcome, tree-or-None, exc-or-None)."""
    tree = None
    try:
        tree = parser(reader)
    except BaseException as err:  # noqa: B902 - classification is the point
        if isinstance(err, (KeyboardInterrupt, MemoryError)):
            raise
        return classify_exception(err, sys.exc_info()[2]), None, err
    try:
        text = str(tree)
        rep = repr(tree)
    except BaseException as err:  # noqa: B902
        if isinstance(err, (KeyboardInterrupt, MemoryError)):
            raise
        out = classify_exception(err, sys.exc_info()[2])
        if out[0] == "escape":
            out = ["printfail", out[1], out[2]]
        return out, (tree if want_tree else None), err
    return ["ok", renumber_blocks(rep), text], (tree if want_tree else None), None


def outcome_class(outcome):
    return outcome[0]


def outcome_digest(outcome):
    if outcome[0] == "ok":
        return ["ok", sha(outcome[1]), sha(outcome[2])]
    return list(outcome)


def same_outcome(a, b):
    """Equality of outcomes as the properties mean it: same class; for trees the same
    (block-renumbered) repr and the same text.  Error messages / sites are not compared."""
    if a[0] != b[0]:
        return False
    if a[0] == "ok":
        return a[1] == b[1] and a[2] == b[2]
    if a[0] in ("escape", "printfail"):
        return a[1] == b[1]
    return True


# --------------------------------------------------------------------------- symbol tables
def tables_snapshot():
    """(current scope name or None, str(SYMBOL_TABLES)) -- the observation points C09
    names."""
    from fparser.two.symbol_table import SYMBOL_TABLES

    scope = SYMBOL_TABLES.current_scope
    return (None if scope is None else scope.name, str(SYMBOL_TABLES))


def _table_dump(table, indent, out):
    syms = getattr(table, "_data_symbols", {})
    out.append("%s%s: symbols=%s" % (indent, table.name, sorted(
        (k, getattr(v, "primitive_type", None)) for k, v in syms.items())))
    for name, use in sorted(getattr(table, "_modules", {}).items()):
        names = sorted(use.symbol_names)
        out.append("%s  use %s only=%s rename=%s wildcard=%s symbols=%s declared=%s" % (
            indent, name, sorted(use.only_list) if use.only_list is not None else None,
            sorted(use.rename_list) if use.rename_list is not None else None,
            use.wildcard_import, names, [use.get_declared_name(n) for n in names]))
    for child in table.children:
        _table_dump(child, indent + "    ", out)


def tables_contents():
    """Every symbol table reachable from SYMBOL_TABLES with its entries (data symbols, module
    uses, nested tables): what 'no symbol-table entry of the failed parse remains' is about.
    str(SYMBOL_TABLES) lists only the names of the top-level tables."""
    from fparser.two.symbol_table import SYMBOL_TABLES

    out = []
    for name in sorted(SYMBOL_TABLES._symbol_tables):
        _table_dump(SYMBOL_TABLES._symbol_tables[name], "", out)
    return "\n".join(out)


def table_names():
    _, text = tables_snapshot()
    return [ln for ln in text.split("\n")[2:] if ln]


# --------------------------------------------------------------------------- trees
def iter_nodes(node, _depth=0):
    """Yield (node, parent_container_node) for every Base instance reachable through
    content/items, descending into nested tuples/lists."""
    from fparser.two.utils import Base

    stack = [(node, None)]
    while stack:
        cur, par = stack.pop()
        if isinstance(cur, Base):
            yield cur, par
            kids = cur.children
            for kid in reversed(list(kids) if kids is not None else []):
                stack.append((kid, cur))
        elif isinstance(cur, (list, tuple)):
            for kid in reversed(cur):
                stack.append((kid, par))


def structure(node):
    """Canonical nested structure of a tree: class names, leaf strings, and the
    label / construct name carried by statement items (which repr() omits)."""
    from fparser.two.utils import Base

    def rec(cur):
        if isinstance(cur, Base):
            item = getattr(cur, "item", None)
            lab = getattr(item, "label", None)
            nam = getattr(item, "name", None)
            kids = cur.children
            return [type(cur).__name__, lab, nam, [rec(k) for k in (kids or [])]]
        if isinstance(cur, (list, tuple)):
            return ["#seq", [rec(k) for k in cur]]
        if cur is None:
            return None
        return str(cur)

    return rec(node)


def structure_hash(node):
    import json

    return sha(renumber_blocks(json.dumps(structure(node), sort_keys=True)))


def wellformed(root):
    """The C10 structural invariants, as a list of violated-invariant names
    (empty = well formed).  Used as a passive monitor only."""
    from fparser.two.utils import walk

    bad = []
    seen = set()
    dup = False
    parent_bad = False
    root_bad = False
    order = []
    for node, par in iter_nodes(root):
        if id(node) in seen:
            dup = True
        seen.add(id(node))
        order.append(id(node))
        if node is root:
            if getattr(node, "parent", None) is not None:
                root_bad = True
        else:
            if getattr(node, "parent", None) is not par:
                parent_bad = True
            try:
                if node.get_root() is not root:
                    root_bad = True
            except Exception:
                root_bad = True
    if dup:
        bad.append("node-occurs-twice")
    if parent_bad:
        bad.append("parent-not-container")
    if root_bad:
        bad.append("get_root")
    try:
        from fparser.two.utils import Base

        walked = [id(n) for n in walk(root) if isinstance(n, Base)]
        if walked != order:
            bad.append("walk-order")
    except Exception:
        bad.append("walk-raises")
    return bad


def node_ids(root):
    return {id(n) for n, _ in iter_nodes(root)}


def node_classes(root):
    return sorted({type(n).__name__ for n, _ in iter_nodes(root)})

"""Aggregates what a batch actually covered and writes /verif/evidence/<id>.json."""
import json
import os


def _merge_counts(dst, src):
    for key, val in (src or {}).items():
        if isinstance(val, dict):
            _merge_counts(dst.setdefault(key, {}), val)
        elif isinstance(val, (int, float)):
            dst[key] = dst.get(key, 0) + val


class Aggregate:
    def __init__(self, prop, tier, seed):
        self.prop = prop
        self.tier = tier
        self.seed = seed
        self.runs = 0
        self.discarded = {}
        self.digests_nontrivial = set()
        self.digests_all = set()
        self.state_keys = set()
        self.stats = {}
        self.samples = []
        self.violating_runs = 0
        self.known_seen = []
        self.new_violations = 0
        self.determinism = {}
        self.timeouts = {}
        self.wall_s = 0.0
        self.workers = 0
        self.harness_errors = 0

    def add(self, idx, run_seed, val):
        self.runs += 1
        if val.get("discarded"):
            self.discarded[val["discarded"]] = self.discarded.get(val["discarded"], 0) + 1
        self.digests_all.add(val["digest"])
        if val.get("nontrivial") and not val.get("discarded"):
            self.digests_nontrivial.add(val["digest"])
        for key in val.get("state_keys", []):
            self.state_keys.add(json.dumps(key, sort_keys=True))
        _merge_counts(self.stats, val.get("stats"))
        if val.get("violations"):
            self.violating_runs += 1
        if "case" in val and len(self.samples) < 3 and 0 <= idx < 3:
            val["case"] = {k: v for k, v in val["case"].items() if not k.startswith("_cache_")}
            self.samples.append({"run_seed": run_seed, "case": self.prop.sample_view(val["case"])
                                 if hasattr(self.prop, "sample_view") else val["case"],
                                 "digest": val["digest"]})

    def print_summary(self):
        print("runs=%d nontrivial_distinct=%d states_distinct=%d wall=%.1fs workers=%d "
              "runs_per_hour=%d" % (self.runs, len(self.digests_nontrivial),
                                    len(self.state_keys), self.wall_s, self.workers,
                                    int(self.runs / max(self.wall_s, 1e-9) * 3600)))
        print("faults_fired=%s" % json.dumps(self.stats.get("faults", {}), sort_keys=True))
        print("probes=%s" % json.dumps(self.stats.get("probes", {}), sort_keys=True))
        zero = [p for p in getattr(self.prop, "PROBES", []) if not self.stats.get("probes", {}).get(p)]
        if zero:
            print("WARNING probes never hit in this batch: %s" % ", ".join(zero))
        if self.discarded:
            print("discarded=%s" % json.dumps(self.discarded, sort_keys=True))
        print("determinism=%s timeouts=%s" % (json.dumps(self.determinism, sort_keys=True),
                                              json.dumps(self.timeouts, sort_keys=True)))


def _by_kind(keys):
    out = {}
    for key in keys:
        try:
            first = json.loads(key)[0]
        except Exception:
            first = "?"
        first = first if isinstance(first, str) and len(first) < 30 else "tuple"
        out[first] = out.get(first, 0) + 1
    return out


def write(agg):
    prop = agg.prop
    evdir = os.environ.get("VERIF_EVIDENCE_DIR") or "/verif/evidence"
    os.makedirs(evdir, exist_ok=True)
    stats = agg.stats
    doc = {
        "property_id": prop.ID,
        "tier": agg.tier,
        "seed": agg.seed,
        "level": "exploration",
        "wall_s": round(agg.wall_s, 2),
        "violations": agg.new_violations,
        "assumptions": list(getattr(prop, "ASSUMPTIONS", [])),
        "coverage": {
            "evaluations": agg.runs,
            "distinct_nontrivial": len(agg.digests_nontrivial),
            "rule": prop.RULE,
            "samples": agg.samples,
            "runs_per_hour": int(agg.runs / max(agg.wall_s, 1e-9) * 3600),
            "workers": agg.workers,
            "logical_time": stats.get("logical", {}),
            "faults_fired": stats.get("faults", {}),
            "probes": {p: stats.get("probes", {}).get(p, 0)
                       for p in sorted(set(getattr(prop, "PROBES", [])) |
                                       set(stats.get("probes", {})))},
            "counters": stats.get("counters", {}),
            "states_distinct": len(agg.state_keys),
            "states_distinct_by_kind": _by_kind(agg.state_keys),
            "states_measure": getattr(prop, "STATE_MEASURE", ""),
            "distinct_event_logs": len(agg.digests_all),
            "discarded_runs": agg.discarded,
            "violating_runs_including_known": agg.violating_runs,
            "known_findings_seen": agg.known_seen,
            "determinism": agg.determinism,
            "timeouts": agg.timeouts,
            "harness_errors": agg.harness_errors,
            "components": getattr(prop, "COMPONENTS", {}),
            "simulated_time_note": "fparser has no clock or timer; 'logical_time' counts "
                                   "operations executed, physical lines and bytes delivered",
        },
    }
    path = os.path.join(evdir, "%s.json" % prop.ID)
    tmp = path + ".tmp"
    with open(tmp, "w") as fobj:
        json.dump(doc, fobj, indent=1, sort_keys=True)
    os.replace(tmp, path)
    return path

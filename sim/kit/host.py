"""The simulated host a run executes on: file system, raw byte streams, process
exit, step clock and log capture.  Everything is installed inside the forked run
child *before* the first operation and is driven only by data in the run's case
(never by a PRNG at execution time).

Seams (no change to /repo needed): the module-level names ``open`` in
``fparser.common.readfortran`` and ``fparser.common.sourceinfo`` (a module global
shadows the builtin), ``sys.exit`` via SystemExit, ``Base.__new__`` for the step
clock, the ``fparser`` logger for log capture.
"""
import builtins
import errno
import io
import logging
import os
import shutil
import sys
import traceback


# --------------------------------------------------------------------------- raw stream
class InjectedIOError(OSError):
    """The exception object the simulated disk raises (recognisable by identity)."""


class SimRaw(io.RawIOBase):
    """A raw byte stream served from memory with seeded faults.

    plan keys (all optional):
      short   : list of positive ints, the size limit of successive readinto calls
                (cycled) -- short reads
      eio_at  : byte offset at/after which readinto raises EIO
      eio_once: raise only once (a later retry succeeds)
      noseek  : stream reports itself non-seekable
    """

    def __init__(self, data, name, plan, stats):
        super().__init__()
        self._data = data
        self._pos = 0
        self.name = name
        self._plan = dict(plan or {})
        self._short = list(self._plan.get("short") or [])
        self._short_i = 0
        self._eio_armed = self._plan.get("eio_at") is not None
        self._stats = stats
        self.raised = []

    def readable(self):
        return True

    def writable(self):
        return False

    def seekable(self):
        return not self._plan.get("noseek")

    def readinto(self, b):
        want = len(b)
        if self._eio_armed:
            at = self._plan["eio_at"]
            if self._pos >= at:
                if self._plan.get("eio_once"):
                    self._eio_armed = False
                err = InjectedIOError(errno.EIO, "simulated I/O error", self.name)
                self.raised.append(err)
                self._stats["faults"]["eio"] = self._stats["faults"].get("eio", 0) + 1
                raise err
            want = min(want, at - self._pos)
        if self._short and want > 0:
            lim = self._short[self._short_i % len(self._short)]
            self._short_i += 1
            if lim < want and self._pos + lim < len(self._data):
                want = lim
                self._stats["faults"]["short_read"] = (
                    self._stats["faults"].get("short_read", 0) + 1
                )
                # did the cut land inside a multi-byte UTF-8 sequence?
                nxt = self._data[self._pos + want : self._pos + want + 1]
                if nxt and 0x80 <= nxt[0] < 0xC0:
                    self._stats["probes"]["short_read_split_multibyte"] = (
                        self._stats["probes"].get("short_read_split_multibyte", 0) + 1
                    )
        chunk = self._data[self._pos : self._pos + want]
        b[: len(chunk)] = chunk
        self._pos += len(chunk)
        self._stats["logical"]["bytes"] = self._stats["logical"].get("bytes", 0) + len(chunk)
        self._stats["logical"]["newlines_served"] = \
            self._stats["logical"].get("newlines_served", 0) + chunk.count(b"\n")
        return len(chunk)

    def seek(self, offset, whence=0):
        if not self.seekable():
            raise io.UnsupportedOperation("simulated non-seekable stream")
        if whence == 0:
            self._pos = offset
        elif whence == 1:
            self._pos += offset
        else:
            self._pos = len(self._data) + offset
        self._pos = max(0, self._pos)
        return self._pos

    def tell(self):
        if not self.seekable():
            raise io.UnsupportedOperation("simulated non-seekable stream")
        return self._pos


def new_stats():
    return {"faults": {}, "probes": {}, "logical": {}}


# --------------------------------------------------------------------------- file system
class SimFS:
    """File-system image (relative path -> bytes) with a per-path fault plan.

    The fault-free image is also materialised in a private directory, which
    becomes the cwd: code that opens a file some other way than through the
    patched ``open`` still finds the right content (and the run reports
    ``seam_bypassed``), so a benign refactor cannot cause a false alarm.

    faults[path] may contain: short / eio_at / eio_once / noseek (see SimRaw),
      eio_open : which open of that path gets the eio fault (1 = first, 2 = second,
                 0 = every open)
      eacces   : open raises PermissionError
      alt_from_open2 : bytes (latin-1 text) served instead from the second open on
    image values of None create a *directory* of that name.
    """

    def __init__(self, image, faults=None, stats=None):
        self.image = {k: (None if v is None else bytes(v)) for k, v in image.items()}
        self.faults = faults or {}
        self.stats = stats if stats is not None else new_stats()
        self.opens = {}
        self.raw_streams = []
        self.root = None
        self._saved = []
        self._cwd = None

    # -- lifecycle
    def install(self, tag):
        base = "/dev/shm" if os.path.isdir("/dev/shm") else os.environ.get("TMPDIR", "/tmp")
        self.root = os.path.join(base, "fpverif-%s" % tag)
        shutil.rmtree(self.root, ignore_errors=True)
        os.makedirs(self.root)
        for path, data in sorted(self.image.items()):
            full = os.path.join(self.root, path)
            if data is None:
                os.makedirs(full, exist_ok=True)
                continue
            os.makedirs(os.path.dirname(full), exist_ok=True)
            with builtins.open(full, "wb") as fobj:
                fobj.write(data)
        self._cwd = os.getcwd()
        os.chdir(self.root)
        import fparser.common.readfortran as rf
        import fparser.common.sourceinfo as si

        for mod in (rf, si):
            self._saved.append((mod, mod.__dict__.get("open", _MISSING)))
            mod.open = self.open
        return self

    def uninstall(self):
        for mod, old in self._saved:
            if old is _MISSING:
                mod.__dict__.pop("open", None)
            else:
                mod.open = old
        self._saved = []
        if self._cwd:
            try:
                os.chdir(self._cwd)
            except OSError:
                pass
        if self.root:
            shutil.rmtree(self.root, ignore_errors=True)

    # -- the file system changes while the process lives
    def write(self, path, data):
        """Create or replace a file (image and mirrored directory)."""
        self.image[path] = bytes(data)
        full = os.path.join(self.root, path)
        os.makedirs(os.path.dirname(full), exist_ok=True)
        with builtins.open(full, "wb") as fobj:
            fobj.write(data)

    def remove(self, path):
        self.image.pop(path, None)
        try:
            os.remove(os.path.join(self.root, path))
        except OSError:
            pass

    # -- the seam
    def _key(self, path):
        if not isinstance(path, str):
            return None
        key = os.path.normpath(path)
        if os.path.isabs(key) and self.root and key.startswith(self.root + os.sep):
            key = key[len(self.root) + 1 :]
        return key if self.image.get(key) is not None else None

    def open(self, file, mode="r", buffering=-1, encoding=None, errors=None, newline=None,
             closefd=True, opener=None):
        key = self._key(file)
        if key is None or "r" not in mode or "+" in mode:
            return builtins.open(file, mode, buffering, encoding, errors, newline, closefd,
                                 opener)
        n = self.opens[key] = self.opens.get(key, 0) + 1
        self.stats["logical"]["opens"] = self.stats["logical"].get("opens", 0) + 1
        plan = dict(self.faults.get(key) or {})
        if plan.get("eacces"):
            self.stats["faults"]["eacces"] = self.stats["faults"].get("eacces", 0) + 1
            raise PermissionError(errno.EACCES, "simulated permission denied", file)
        which = plan.pop("eio_open", 0)
        if which not in (0, n):
            plan.pop("eio_at", None)
        data = self.image[key]
        alt = plan.pop("alt_from_open2", None)
        if alt is not None and n >= 2:
            # the file was rewritten between two opens of the same path (FortranFileReader
            # opens a path once to read it and once more to detect the source form)
            data = alt.encode("latin-1") if isinstance(alt, str) else bytes(alt)
            self.stats["faults"]["changed_between_opens"] = \
                self.stats["faults"].get("changed_between_opens", 0) + 1
        raw = SimRaw(data, file, plan, self.stats)
        self.raw_streams.append(raw)
        if "b" in mode:
            return io.BufferedReader(raw)
        return io.TextIOWrapper(io.BufferedReader(raw), encoding=encoding, errors=errors,
                                newline=newline)

    def open_filelike(self, path, encoding="UTF-8", errors="fparser-logging"):
        """A text file object over the simulated raw stream (for the
        FortranFileReader(<file-like>) entry)."""
        return self.open(path, "r", encoding=encoding, errors=errors)

    def injected_errors(self):
        out = []
        for raw in self.raw_streams:
            out.extend(raw.raised)
        return out

    def seam_bypassed(self, expected_paths):
        """True if a path the run was supposed to read was never opened through
        the seam (a refactor opened it some other way)."""
        return any(self.opens.get(p, 0) == 0 for p in expected_paths)


_MISSING = object()


# --------------------------------------------------------------------------- line stream
class LineStream:
    """Iterator of physical lines for FortranReaderBase(source=...): stops early
    or raises persistently at physical line k (0-based count of lines served)."""

    def __init__(self, text, stop_at=None, raise_at=None, stats=None):
        self._lines = text.splitlines(True)
        self._i = 0
        self._stop_at = stop_at
        self._raise_at = raise_at
        self._stats = stats if stats is not None else new_stats()
        self.raised = []

    def __iter__(self):
        return self

    def __next__(self):
        if self._stop_at is not None and self._i >= self._stop_at:
            if self._i < len(self._lines):
                self._stats["faults"]["stream_eof"] = self._stats["faults"].get("stream_eof", 0) + 1
            raise StopIteration
        if self._raise_at is not None and self._i >= self._raise_at:
            err = InjectedIOError(errno.EIO, "simulated stream error")
            self.raised.append(err)
            self._stats["faults"]["stream_eio"] = self._stats["faults"].get("stream_eio", 0) + 1
            raise err
        if self._i >= len(self._lines):
            raise StopIteration
        line = self._lines[self._i]
        self._i += 1
        self._stats["logical"]["lines"] = self._stats["logical"].get("lines", 0) + 1
        return line


# --------------------------------------------------------------------------- step clock
class StepBudgetExceeded(BaseException):
    """Raised (as BaseException, so no fparser handler can swallow it) when a parse
    constructs more rule objects than its deterministic budget allows."""


class StepClock:
    """Counts Base.__new__ calls: the deterministic 'time' a parse takes."""

    def __init__(self):
        self.count = 0
        self.budget = None
        self.budget_fn = None
        self._orig = None

    def install(self):
        from fparser.two import utils

        if self._orig is not None:
            return self
        orig = utils.Base.__dict__["__new__"]
        func = orig.__func__ if isinstance(orig, staticmethod) else orig
        clock = self

        def counted_new(cls, *args, **kwargs):
            clock.count += 1
            if clock.budget is not None and clock.count > clock.budget:
                # the budget may grow with the input actually consumed (files re-opened through
                # recursive INCLUDEs deliver more lines than the main file has)
                if clock.budget_fn is not None and clock.count <= clock.budget_fn():
                    clock.budget = clock.budget_fn()
                else:
                    clock.budget = None  # raise once
                    raise StepBudgetExceeded(clock.count)
            return func(cls, *args, **kwargs)

        counted_new.__wrapped__ = func
        self._orig = orig
        utils.Base.__new__ = counted_new
        return self

    def uninstall(self):
        if self._orig is not None:
            from fparser.two import utils

            utils.Base.__new__ = self._orig
            self._orig = None

    def start(self, budget, budget_fn=None):
        self.count = 0
        self.budget = budget
        self.budget_fn = budget_fn


# --------------------------------------------------------------------------- logging
class LogCounter(logging.Handler):
    def __init__(self):
        super().__init__(level=logging.WARNING)
        self.levels = {}
        self.decode_skips = 0

    def emit(self, record):
        self.levels[record.levelname] = self.levels.get(record.levelname, 0) + 1
        try:
            if str(record.msg).startswith("Skipped bad"):
                self.decode_skips += 1
        except Exception:
            pass


def install_log_counter():
    logger = logging.getLogger("fparser")
    for hdl in list(logger.handlers):
        if isinstance(hdl, LogCounter):
            logger.removeHandler(hdl)
    counter = LogCounter()
    logger.addHandler(counter)
    logger.setLevel(logging.WARNING)
    logger.propagate = False
    return counter


# --------------------------------------------------------------------------- escapes
def innermost_fparser_frame(tb):
    """(module-relative file, function) of the innermost frame inside fparser for a
    traceback: the code-derived, line-number-free *site* of an escape."""
    site = None
    for frame, _ in traceback.walk_tb(tb):
        fname = frame.f_code.co_filename
        idx = fname.rfind("/fparser/")
        if idx != -1:
            qual = getattr(frame.f_code, "co_qualname", frame.f_code.co_name)
            site = "%s:%s" % (fname[idx + 9 :].replace(".py", ""), qual)
    return site or "outside-fparser"


def exit_site(tb):
    """Site of a SystemExit: the two innermost fparser frames (the caller of
    reader.error() is what distinguishes one exit path from another)."""
    sites = []
    for frame, _ in traceback.walk_tb(tb):
        fname = frame.f_code.co_filename
        idx = fname.rfind("/fparser/")
        if idx != -1:
            qual = getattr(frame.f_code, "co_qualname", frame.f_code.co_name)
            sites.append("%s:%s" % (fname[idx + 9 :].replace(".py", ""), qual))
    return ">".join(sites[-2:]) or "outside-fparser"

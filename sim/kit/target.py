"""Locates and imports the code under test.

Every check imports fparser from /repo's *current working tree* (the editable
install in /venv points at /repo/src; VERIF_REPO_SRC overrides it for the
sensitivity self-tests, which run against a scratch copy).  Importing is all that
happens here: ParserFactory.create() is never called in the template process.
"""
import os
import sys

_loaded = False


def repo_src():
    return os.environ.get("VERIF_REPO_SRC") or "/repo/src"


def load():
    """Import every fparser module the simulations touch (so that forked children
    pay no import cost and all of them start from the same image)."""
    global _loaded
    if _loaded:
        return
    src = repo_src()
    if sys.path[:1] != [src]:
        sys.path.insert(0, src)
    import fparser  # noqa: F401
    import fparser.common.readfortran  # noqa: F401
    import fparser.common.sourceinfo  # noqa: F401
    import fparser.common.splitline  # noqa: F401
    import fparser.two.parser  # noqa: F401
    import fparser.two.utils  # noqa: F401
    import fparser.two.Fortran2003  # noqa: F401
    import fparser.two.Fortran2008  # noqa: F401
    import fparser.two.C99Preprocessor  # noqa: F401
    import fparser.two.symbol_table  # noqa: F401
    import fparser.api  # noqa: F401
    import fparser.scripts.fparser2  # noqa: F401

    got = os.path.realpath(os.path.dirname(os.path.dirname(fparser.__file__)))
    want = os.path.realpath(src)
    if got != want:
        raise RuntimeError("fparser imported from %s, expected %s" % (got, want))
    _loaded = True


def tree_id():
    """git HEAD + dirty flag of the tree under test (for replay files)."""
    import subprocess

    top = os.path.dirname(os.path.realpath(repo_src()))
    try:
        head = subprocess.run(["git", "-C", top, "rev-parse", "HEAD"], capture_output=True,
                              text=True, timeout=20).stdout.strip()
        dirty = bool(subprocess.run(["git", "-C", top, "status", "--porcelain", "--", "src"],
                                    capture_output=True, text=True, timeout=20).stdout.strip())
    except Exception:
        head, dirty = "unknown", False
    return {"head": head, "dirty": dirty, "src": repo_src()}

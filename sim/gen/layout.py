"""Renders statement records to physical lines in free or fixed form and records,
by construction, what a reader has to deliver for every statement:
class, text (blank-squashed outside character literals), label, construct name and
the (first, last) physical line span.

All randomness comes from the rng passed in; the result is plain data.
"""
from .fgen import is_literal, join_tokens

COMMENTS = ["! a comment", "!", "! it's here", '! say "x"', "! x = 1 & y", "!$omp parallel do",
            "!  spaced  out", "! end do", "!dir$ ivdep", "! ; semi", "!$ x = 2",
            # a page break (form feed) and other Unicode "line boundaries" inside a comment
            "! page\x0cbreak", "! nel\x85 ls\u2028 vt\x0bx"]


def squash(text):
    """Remove blanks outside character literals (literal bodies are kept character
    for character).  Independent of fparser's own quote splitter."""
    out = []
    i = 0
    n = len(text)
    quote = None
    while i < n:
        ch = text[i]
        if quote:
            out.append(ch)
            if ch == quote:
                if i + 1 < n and text[i + 1] == quote:
                    out.append(quote)
                    i += 1
                else:
                    quote = None
        else:
            if ch in "'\"":
                quote = ch
                out.append(ch)
            elif ch not in " \t":
                out.append(ch)
        i += 1
    return "".join(out)


def fold_outside_literals(text):
    """Lower-case everything outside character literals."""
    out = []
    i = 0
    n = len(text)
    quote = None
    while i < n:
        ch = text[i]
        if quote:
            out.append(ch)
            if ch == quote:
                if i + 1 < n and text[i + 1] == quote:
                    out.append(quote)
                    i += 1
                else:
                    quote = None
        else:
            if ch in "'\"":
                quote = ch
                out.append(ch)
            else:
                out.append(ch.lower())
        i += 1
    return "".join(out)


def join_with_spans(toks):
    """join_tokens plus the (start, end) offsets of every token in the result."""
    text = ""
    spans = []
    for k in range(len(toks)):
        joined = join_tokens(toks[: k + 1])
        start = len(joined) - len(toks[k])
        assert joined[start:] == toks[k] and joined.startswith(text)
        spans.append((start, len(joined)))
        text = joined
    return text, spans


def _pieces(st, r, max_cuts, allow_literal_cut, allow_token_cut, casemix):
    """Split the statement text into continuation pieces.  Returns (tokens used,
    [(piece text, kind of the break after it)]) with kind None for the last piece,
    'tok' at a token boundary, 'lit' inside a character literal, 'word' inside a
    name / keyword / number."""
    toks = list(st.toks)
    if casemix:
        toks = [t if is_literal(t) else (t.upper() if r.random() < casemix else t) for t in toks]
    text, spans = join_with_spans(toks)
    ncuts = r.randrange(0, max_cuts + 1) if max_cuts > 0 else 0
    if ncuts == 0 or len(text) < 3:
        return toks, [(text, None)]
    cands = []
    for k, (a, b) in enumerate(spans):
        tok = toks[k]
        if k + 1 < len(spans):
            cands.append((spans[k + 1][0], "tok"))
        if is_literal(tok) and allow_literal_cut and len(tok) > 3:
            q = tok[0]
            for pos in range(2, len(tok) - 1):
                if tok[pos - 1].isspace() or tok[pos].isspace():
                    # the reader strips white space at the ends of a physical line (blanks,
                    # and the form feed etc. of the zoo's literals): no cut next to it
                    continue
                if tok[pos - 1] != q and tok[pos] != q:
                    cands.append((a + pos, "lit"))
                    cands.append((a + pos, "lit"))  # weight literal cuts up
        elif allow_token_cut and not is_literal(tok) and len(tok) > 2 and tok.isalnum():
            if r.random() < 0.3:
                cands.append((a + r.randrange(1, len(tok)), "word"))
    chosen = {}
    if not cands:
        return toks, [(text, None)]
    for _ in range(ncuts):
        pos, kind = cands[r.randrange(len(cands))]
        if 0 < pos < len(text):
            chosen.setdefault(pos, kind)
    pieces = []
    prev = 0
    for pos in sorted(chosen):
        if pos - prev < 1:
            continue
        pieces.append((text[prev:pos], chosen[pos]))
        prev = pos
    pieces.append((text[prev:], None))
    return toks, pieces


class Rendered:
    def __init__(self):
        self.lines = []          # physical lines (no newline)
        self.items = []          # expected statement items, in order
        self.comments = []       # expected non-empty comment texts (stripped), in source order
        self.comment_lines = []  # the physical line each of them is on
        self.features = {}

    def add_comment(self, text, pending=False):
        """pending: the comment is part of a line that has not been appended yet."""
        self.comments.append(text)
        self.comment_lines.append(len(self.lines) + (1 if pending else 0))

    def feat(self, name):
        self.features[name] = self.features.get(name, 0) + 1

    @property
    def text(self):
        return "\n".join(self.lines) + "\n"


def expected_item(st, toks, span, semi, name=None):
    return {"cls": "Line", "text": squash(join_tokens(toks)), "label": st.label,
            "name": name if name is not None else st.name, "span": list(span), "semi": semi}


def render_free(stmts, r, opts=None):
    """opts: dict(max_cuts, comments, semi, lead_amp, indent0, casemix, blank, cpp,
    literal_cut, token_cut)."""
    o = {"max_cuts": 2, "comments": 0.15, "semi": 0.1, "lead_amp": 0.5, "indent": 2,
         "casemix": 0.0, "blank": 0.05, "cpp": 0.0, "literal_cut": True, "token_cut": True,
         "trail": 0.1, "cont_comment": 0.15}
    o.update(opts or {})
    out = Rendered()
    i = 0
    n = len(stmts)
    while i < n:
        # stand-alone comment / blank / cpp lines between statements
        while r.random() < o["comments"]:
            c = r.choice(COMMENTS)
            out.lines.append(" " * r.randrange(0, 5) + c)
            out.add_comment(c.strip())
            out.feat("comment_line")
        if r.random() < o["blank"]:
            out.lines.append("" if r.random() < 0.5 else "   ")
        if r.random() < o["cpp"]:
            d = r.choice(["#define FOO 1", "#ifdef FOO", "#endif", "#include \"x.h\"", "#undef FOO",
                          "# 12 \"file.f90\"", "#if defined(A) && \\\n    defined(B)", "#else"])
            first = len(out.lines) + 1
            for part in d.split("\n"):
                out.lines.append(part)
            joined = "".join(p.rstrip()[:-1] if p.rstrip().endswith("\\") else p
                             for p in d.split("\n"))
            out.items.append({"cls": "CppDirective", "text": joined, "label": None,
                              "name": None, "span": [first, len(out.lines)], "semi": False,
                              "exact": True})
            out.feat("cpp")
        # group of ';'-joined statements
        group = [stmts[i]]
        while (i + len(group) < n and r.random() < o["semi"] and len(group) < 3):
            group.append(stmts[i + len(group)])
        i += len(group)
        semi = len(group) > 1
        if semi:
            out.feat("semi_join")
        ind = " " * (o["indent"] * group[0].depth + o.get("base_indent", 1))
        # build the logical line as a list of pieces; cuts only computed per statement
        logical = []  # list of (text, cutkind)
        toks_used = []
        names_used = []
        for gi, st in enumerate(group):
            toks, pieces = _pieces(st, r, 0 if semi and r.random() < 0.5 else o["max_cuts"],
                                   o["literal_cut"], o["token_cut"], o["casemix"])
            toks_used.append(toks)
            pre = ""
            if st.label is not None:
                lab = "%d" % st.label
                if o.get("label_zeros") and r.random() < o["label_zeros"] and len(lab) < 5:
                    lab = "0" * r.randrange(1, 6 - len(lab)) + lab
                    out.feat("label_leading_zeros")
                pre += lab + r.choice([" ", " ", "  ", "\t"] if o.get("tabs") else [" "])
            if st.name is not None:
                nm = st.name.upper() if (o["casemix"] and r.random() < o["casemix"]) else st.name
                pre += nm + (": " if r.random() < 0.7 else " : ")
                names_used.append(nm)
            else:
                names_used.append(None)
            pieces = [(pre + pieces[0][0], pieces[0][1])] + pieces[1:]
            if gi:
                sep = r.choice(["; ", ";", " ; "])
                if o.get("empty_stmt") and r.random() < o["empty_stmt"]:
                    # empty statements: consecutive ';' with or without blanks in between are
                    # equivalent to a single ';'
                    sep = r.choice(["; ; ", ";;", " ;  ; ", ";;; ", "; ;; "])
                    out.feat("empty_statement_between_semicolons")
                pieces = [(sep + pieces[0][0], pieces[0][1])] + pieces[1:]
            if logical:
                last_text, last_kind = logical[-1]
                assert last_kind is None
                logical[-1] = (last_text + pieces[0][0], pieces[0][1])
                logical.extend(pieces[1:])
            else:
                logical.extend(pieces)
        first = len(out.lines) + 1
        last = first
        for pi, (text, kind) in enumerate(logical):
            line = ""
            if pi == 0:
                line = ind + text
            else:
                prev_kind = logical[pi - 1][1]
                cind = " " * r.randrange(0, 8)
                if prev_kind in ("lit", "word") or r.random() < o["lead_amp"]:
                    # character context and split tokens require the leading '&'
                    line = cind + "&" + text
                    out.feat("lead_amp")
                else:
                    # without a leading '&' the text starts at the first non-blank: make sure
                    # it does not look like a comment line or start with '&'
                    line = cind + text.lstrip()
                    if not cind:
                        out.feat("cont_col1_no_amp")
            if kind is not None:
                line = line + (" &" if kind == "tok" and r.random() < 0.8 else "&")
                out.feat("cut_" + kind)
                if kind == "tok" and r.random() < o["trail"]:
                    c = r.choice(COMMENTS)
                    line += " " + c
                    out.add_comment(c.strip(), pending=True)
                    out.feat("trail_on_cont")
            elif r.random() < o["trail"]:
                c = r.choice(COMMENTS)
                line += " " + c
                out.add_comment(c.strip(), pending=True)
                out.feat("trailing_comment")
            if o.get("tabs") and r.random() < o["tabs"] and line[:1] == " " and \
                    not line.lstrip().startswith("&") and "'" not in line and '"' not in line:
                # a leading tab instead of blanks (expanded by the reader)
                line = "\t" + line.lstrip(" ")
                out.feat("tab_indent")
            if o.get("trailing_ws") and r.random() < o["trailing_ws"]:
                line = line + r.choice([" ", "   ", "\t"])
                out.feat("trailing_whitespace")
            out.lines.append(line)
            last = len(out.lines)
            if kind is not None and r.random() < o["cont_comment"]:
                # comment or blank line between continuation lines
                if r.random() < 0.6:
                    c = r.choice(COMMENTS)
                    out.lines.append(" " * r.randrange(0, 6) + c)
                    out.add_comment(c.strip())
                    out.feat("comment_in_cont")
                else:
                    out.lines.append("")
                    out.feat("blank_in_cont")
        if len(logical) >= 3 and any(k == "lit" for _, k in logical):
            out.feat("literal_over_3_lines")
        for st, toks, nm in zip(group, toks_used, names_used):
            out.items.append(expected_item(st, toks, (first, last), semi, nm))
    return out


def render_fixed(stmts, r, opts=None):
    """Fixed source form: label in columns 1-5, continuation mark in column 6, text in
    columns 7-72, comment lines introduced by C, c, * or !."""
    o = {"wrap": 72, "comments": 0.15, "semi": 0.05, "max_cuts": 2, "casemix": 0.0,
         "cont_comment": 0.15, "trail": 0.08, "cpp": 0.0, "literal_cut": True}
    o.update(opts or {})
    out = Rendered()
    i = 0
    n = len(stmts)
    while i < n:
        while r.random() < o["comments"]:
            body = r.choice(["a comment", "", " it's", " x = 1", "$omp parallel", " ; & x",
                             "$    x = 2", "$    continue"])
            c = r.choice(["C", "c", "*", "!"]) + body
            out.lines.append(c)
            out.add_comment(c.strip())
            out.feat("comment_line")
        if r.random() < o["cpp"]:
            d = r.choice(["#define FOO 1", "#ifdef FOO", "#endif", "#undef FOO"])
            out.lines.append(d)
            out.items.append({"cls": "CppDirective", "text": d, "label": None, "name": None,
                              "span": [len(out.lines), len(out.lines)], "semi": False,
                              "exact": True})
            out.feat("cpp")
        group = [stmts[i]]
        # only the first statement of a ';' group can use the label field
        while (i + len(group) < n and r.random() < o["semi"] and len(group) < 3
               and stmts[i + len(group)].label is None):
            group.append(stmts[i + len(group)])
        i += len(group)
        semi = len(group) > 1
        if semi:
            out.feat("semi_join")
        st0 = group[0]
        toks_used = []
        text = ""
        lit_spans = []  # (start, end) of literal tokens in text, for safe cutting
        for gi, st in enumerate(group):
            toks = list(st.toks)
            if o["casemix"]:
                toks = [t if is_literal(t) else (t.upper() if r.random() < o["casemix"] else t)
                        for t in toks]
            toks_used.append(toks)
            pre = ""
            if st.name is not None:
                pre += st.name + ": "
            if gi:
                text += r.choice(["; ", ";"])
            text += pre + join_tokens(toks)
        ind = " " * min(2 * st0.depth, 12)
        text = ind + text
        # find literal extents in the final text
        quote = None
        k = 0
        start = None
        while k < len(text):
            ch = text[k]
            if quote:
                if ch == quote:
                    if k + 1 < len(text) and text[k + 1] == quote:
                        k += 1
                    else:
                        lit_spans.append((start, k))
                        quote = None
            elif ch in "'\"":
                quote = ch
                start = k
            k += 1
        width = o["wrap"] - 6
        # choose segment boundaries: forced by width, plus random extra cuts
        segs = []
        rest = text
        offset = 0
        extra = r.randrange(0, o["max_cuts"] + 1)
        while True:
            limit = width
            if len(rest) <= limit and extra <= 0:
                segs.append(rest)
                break
            hi = min(limit, len(rest) - 1)
            lo = max(1, hi - 40) if len(rest) > limit else 1
            if hi < 1:
                segs.append(rest)
                break
            cands = []
            for pos in range(lo, hi + 1):
                # never cut next to a blank (the reader strips every physical line), nor
                # inside a doubled-quote pair, nor directly at a quote
                a, b = rest[pos - 1], rest[pos]
                if a.isspace() or b.isspace():
                    continue
                gpos = offset + pos
                inside = [s for s in lit_spans if s[0] < gpos <= s[1]]
                if inside:
                    if not o["literal_cut"]:
                        continue
                    if a in "'\"" or b in "'\"":
                        continue
                    # '!' inside a continued literal is fine for the reader's quote tracking
                    cands.append((pos, "lit"))
                else:
                    if a.isalnum() and b.isalnum():
                        continue  # do not cut names/numbers (legal in fixed form but pointless)
                    if a in "'\"" or b in "'\"":
                        continue
                    if a + b in ("**", "//", "==", "/=", "<=", ">=", "=>", "::", "(/", "/)") or \
                            a == "." or b == "." or a == "_" or b == "_":
                        continue
                    cands.append((pos, "tok"))
            if not cands:
                segs.append(rest)
                break
            pos, kind = r.choice(cands)
            segs.append(rest[:pos])
            out.feat("cut_" + kind)
            rest = rest[pos:]
            offset += pos
            extra -= 1
        first = len(out.lines) + 1
        last = first
        labfield = ("%5d" % st0.label) if st0.label is not None else "     "
        if st0.label is not None and r.random() < 0.5:
            labfield = ("%-5d" % st0.label)
        for si, seg in enumerate(segs):
            if si == 0:
                line = labfield + " " + seg
            else:
                mark = r.choice(["&", "1", "2", "+", "$", "x", ">", "9"])
                line = "     " + mark + seg
            trailing = False
            if si == len(segs) - 1 and r.random() < o["trail"] and "'" not in seg and '"' not in seg:
                c = "! trailing"
                line = line + " " + c
                out.add_comment(c, pending=True)
                out.feat("trailing_comment")
                trailing = True
            del trailing
            out.lines.append(line)
            last = len(out.lines)
            if si < len(segs) - 1 and r.random() < o["cont_comment"]:
                body = r.choice(["between", "", " x"])
                c = r.choice(["C", "c", "*", "!"]) + body
                out.lines.append(c)
                out.add_comment(c.strip())
                out.feat("comment_in_cont")
        if len(segs) >= 3 and any(True for _ in lit_spans):
            out.feat("long_stmt_with_literal")
        for st, toks in zip(group, toks_used):
            out.items.append(expected_item(st, toks, (first, last), semi))
    return out

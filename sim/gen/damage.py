"""Derives damaged sources and storage faults from valid ones.

Every mutation is plain data ({"kind": ..., params}) chosen by the generator's PRNG and
applied deterministically here, so a replay file spells out exactly what was done.
Byte-level work is done on bytes; token/line-level work on text.
"""
import re

_TOKEN_RE = re.compile(
    r"""'(?:[^'\n]|'')*'|"(?:[^"\n]|"")*"|[A-Za-z_]\w*|\d+\.?\d*(?:[edED][+-]?\d+)?(?:_\w+)?"""
    r"""|\.[A-Za-z]+\.|\*\*|//|==|/=|<=|>=|=>|::|\(/|/\)|\n|[ \t]+|.""",
    re.S,
)

PUNCT = ["(", ")", ",", ":", "::", "=", "=>", "%", "&", ";", "!", "'", '"', "*", "/", "//",
         "(/", "/)", "+", "-", ".", "_", "#", "$", "[", "]", "<", ">", "?", "\\", "{", "}"]
KEYWORDS = ["end", "if", "then", "else", "do", "program", "module", "subroutine", "function",
            "contains", "type", "interface", "select", "case", "where", "forall", "associate",
            "block", "critical", "call", "use", "implicit", "none", "integer", "real",
            "character", "kind", "len", "format", "write", "read", "print", "include", "data",
            "common", "stop", "return", "continue", "cycle", "exit", "goto", "while",
            "concurrent", "result", "only", "procedure", "class", "enum", "enumerator",
            "namelist", "equivalence", "entry", "submodule", "import", "allocate", "elsewhere",
            "default", "is", "endif", "enddo", "error", "sync", "all", "images", "lock",
            "codimension", "contiguous", "bind", "c", "abstract", "extends", "generic",
            "final", "pass", "nopass", "deferred", "non_overridable", "operator",
            "assignment", "pointer", "target", "allocatable", "dimension", "intent",
            "in", "out", "inout", "optional", "parameter", "save", "external", "intrinsic",
            "volatile", "asynchronous", "protected", "value", "sequence", "private", "public"]
FCHARS = ("abcdefghijklmnopqrstuvwxyzABCDEFGHIJKLMNOPQRSTUVWXYZ0123456789"
          " =+-*/(),.':!\"%&;<>?$_\t\n\n\n      ")


def tokenize(text):
    return _TOKEN_RE.findall(text)


def _significant(toks):
    return [i for i, t in enumerate(toks) if t.strip() and t != "\n"]


def gen_mutation(r, text, stmts_info=None, classes=None):
    """Pick one mutation for `text`.  classes: subset of
    {'token','struct','line','byte','trunc'}."""
    classes = classes or ["token", "struct", "line", "byte", "trunc", "cols"]
    cls = r.choice(classes)
    toks = tokenize(text)
    sig = _significant(toks)
    lines = text.split("\n")
    if cls == "token" and sig:
        op = r.choice(["delete", "duplicate", "swap", "punct", "keyword", "delete", "punct"])
        i = r.choice(sig)
        m = {"kind": "tok_" + op, "index": i}
        if op == "swap":
            m["index2"] = r.choice(sig)
        if op == "punct":
            m["with"] = r.choice(PUNCT)
        if op == "keyword":
            m["with"] = r.choice(KEYWORDS)
        return m
    if cls == "struct":
        op = r.choice(["del_line_matching", "rename_end", "paren", "del_line_matching"])
        if op == "del_line_matching":
            pat = r.choice([r"^\s*end\b", r"^\s*(\w+\s*:\s*)?(if|do|select|where|forall|associate"
                                         r"|block|critical|type|interface|subroutine|function|"
                                         r"program|module)\b", r"^\s*contains\b",
                            r"^\s*(else|case|elsewhere)\b"])
            cands = [k for k, ln in enumerate(lines) if re.search(pat, ln, re.I)]
            if cands:
                return {"kind": "line_delete", "line": r.choice(cands)}
        if op == "rename_end":
            cands = [k for k, ln in enumerate(lines)
                     if re.search(r"^\s*end\s*\w+\s+\w+\s*$", ln, re.I)]
            if cands:
                return {"kind": "rename_end", "line": r.choice(cands),
                        "name": r.choice(["zz", "foo", "p", "m", "s"])}
        parens = [i for i, t in enumerate(toks) if t in ("(", ")")]
        if parens:
            if r.random() < 0.5:
                return {"kind": "tok_delete", "index": r.choice(parens)}
            return {"kind": "tok_duplicate", "index": r.choice(parens)}
        cls = "line"
    if cls == "cols" and lines:
        # column-sensitive damage: one character inserted into / replaced in columns 1-6 of a
        # line (label field, continuation column, comment marker) -- what a fixed-form source
        # meets when an editor shifts or retypes a character
        return {"kind": "cols", "line": r.randrange(len(lines)), "col": r.randrange(0, 6),
                "op": r.choice(["insert", "replace"]),
                "char": r.choice(" 0123456789&cC*!#\t$+.x")}
    if cls == "line" and len(lines) > 1:
        op = r.choice(["line_delete", "line_duplicate", "line_swap"])
        m = {"kind": op, "line": r.randrange(len(lines))}
        if op == "line_swap":
            m["line2"] = r.randrange(len(lines))
        return m
    if cls == "trunc":
        return {"kind": "truncate", "at": r.randrange(0, max(1, len(text.encode("utf-8", "surrogateescape"))))}
    # byte level
    n = max(1, len(text.encode("utf-8", "surrogateescape")))
    op = r.choice(["flip", "drop", "dup", "insert", "insert", "insert", "tail"])
    if op == "tail":
        # undecodable bytes as the very last bytes of the file (e.g. a file cut inside a
        # multi-byte character), with or without a final newline before them
        return {"kind": "byte_insert", "at": n if r.random() < 0.7 else max(0, n - 1),
                "bytes": r.choice([[0xC3], [0xE2, 0x82], [0xF0, 0x9F, 0x98], [0xFF],
                                   [0x80, 0x80], [0xC3, 0x28]])}
    m = {"kind": "byte_" + op, "at": r.randrange(n)}
    if op == "flip":
        m["bit"] = r.randrange(8)
    if op == "insert":
        m["bytes"] = r.choice([[0x80], [0xFF], [0xC3], [0xE2, 0x82], [0xF0, 0x9F, 0x98], [0],
                               [13], [12], [0xC3, 0xA9], [0xE2, 0x82, 0xAC], [0xC0, 0xAF],
                               [0xED, 0xA0, 0x80], [0xFE], [9], [0x1A], [0xEF, 0xBB, 0xBF], [0x20], [0x20]])
    return m


def apply_mutation(data, m):
    """data: bytes -> bytes."""
    kind = m["kind"]
    if kind.startswith("byte_") or kind == "truncate":
        at = min(m["at"], len(data) if kind == "byte_insert" else max(0, len(data) - 1)) \
            if data else 0
        if kind == "truncate":
            return data[: m["at"]]
        if not data:
            return bytes(m.get("bytes", []))
        if kind == "byte_flip":
            return data[:at] + bytes([data[at] ^ (1 << m["bit"])]) + data[at + 1 :]
        if kind == "byte_drop":
            return data[:at] + data[at + 1 :]
        if kind == "byte_dup":
            return data[: at + 1] + data[at : at + 1] + data[at + 1 :]
        if kind == "byte_insert":
            return data[:at] + bytes(m["bytes"]) + data[at:]
    text = data.decode("utf-8", "surrogateescape")
    if kind.startswith("tok_"):
        toks = tokenize(text)
        i = m["index"]
        if i >= len(toks):
            return data
        if kind == "tok_delete":
            del toks[i]
        elif kind == "tok_duplicate":
            toks.insert(i, toks[i])
        elif kind == "tok_swap":
            j = m["index2"]
            if j < len(toks):
                toks[i], toks[j] = toks[j], toks[i]
        elif kind in ("tok_punct", "tok_keyword"):
            toks[i] = m["with"]
        text = "".join(toks)
    elif kind.startswith("line_") or kind in ("rename_end", "cols"):
        lines = text.split("\n")
        k = m["line"]
        if k >= len(lines):
            return data
        if kind == "line_delete":
            del lines[k]
        elif kind == "line_duplicate":
            lines.insert(k, lines[k])
        elif kind == "line_swap":
            j = m["line2"]
            if j < len(lines):
                lines[k], lines[j] = lines[j], lines[k]
        elif kind == "rename_end":
            lines[k] = re.sub(r"\w+\s*$", m["name"], lines[k])
        elif kind == "cols":
            ln = lines[k].ljust(m["col"] + 1)
            if m["op"] == "insert":
                lines[k] = ln[: m["col"]] + m["char"] + ln[m["col"]:]
            else:
                lines[k] = ln[: m["col"]] + m["char"] + ln[m["col"] + 1:]
        text = "\n".join(lines)
    return text.encode("utf-8", "surrogateescape")


def random_text(r, n):
    """Unstructured text over the Fortran character set, biased to look statement-like."""
    out = []
    for _ in range(n):
        c = r.random()
        if c < 0.25:
            out.append(r.choice(KEYWORDS))
            out.append(r.choice([" ", " ", "", "\n"]))
        elif c < 0.4:
            out.append(r.choice(PUNCT))
        elif c < 0.5:
            out.append(r.choice(["x", "y", "a(i)", "1", "2.0", "'s'", "10 ", "name: "]))
            out.append(r.choice([" ", ""]))
        else:
            out.append(r.choice(FCHARS))
    return "".join(out)


def describe_position(data, at):
    """Where did a truncation land? inside a literal / continuation / directive (probes)."""
    text = data[:at].decode("utf-8", "ignore")
    last = text.split("\n")[-1] if text else ""
    prev = text.split("\n")[-2] if text.count("\n") >= 1 else ""
    where = []
    if last.count("'") % 2 == 1 or last.count('"') % 2 == 1:
        where.append("literal")
    if prev.rstrip().endswith("&") or last.rstrip().endswith("&"):
        where.append("continuation")
    if last.lstrip().startswith("#"):
        where.append("directive")
    return where

"""Seeded, grammar-directed generator of Fortran programs as *statement records*.

A program is a list of Stmt; each carries its tokens (character literals are
single tokens), an optional numeric label, an optional construct name, its kind,
nesting depth and -- for END/closing statements -- the index of its opener.  The
layout module renders records to physical lines and therefore knows, by
construction, what a reader must deliver for each statement.

Validity is never assumed by a check: a generated program is "valid" only if a
pristine reference parse accepts it.  A small name pool makes unit names collide
across programs and lets declarations shadow intrinsics.
"""

from . import zoo

UNIT_NAMES = ["p", "q", "m", "s", "f", "main", "sub1", "mod_a"]
SHADOW = ["sin", "cos", "max", "min", "abs", "sum", "size", "mod"]
F08_INTRINSICS = ["norm2", "findloc", "bessel_j0", "erfc_scaled", "hypot", "iall"]


class Stmt:
    __slots__ = ("toks", "label", "name", "kind", "depth", "opener", "simple", "f08")

    def __init__(self, toks, kind, depth=0, label=None, name=None, opener=None, simple=False,
                 f08=False):
        self.toks = list(toks)
        self.kind = kind
        self.depth = depth
        self.label = label
        self.name = name
        self.opener = opener
        self.simple = simple
        self.f08 = f08

    def to_json(self):
        return {"toks": self.toks, "label": self.label, "name": self.name, "kind": self.kind,
                "depth": self.depth, "opener": self.opener, "simple": self.simple,
                "f08": self.f08}

    @staticmethod
    def from_json(d):
        return Stmt(d["toks"], d["kind"], d["depth"], d["label"], d["name"], d["opener"],
                    d["simple"], d.get("f08", False))


def is_literal(tok):
    return tok[:1] in ("'", '"')


_NO_SPACE_BEFORE = {")", ",", ":", "%", "]"}
_NO_SPACE_AFTER = {"(", "%", "[", ":"}


def join_tokens(toks):
    """Conventional spacing; any spacing would do for the checks, which compare
    modulo blanks outside character literals."""
    out = []
    prev = None
    for tok in toks:
        if prev is None:
            out.append(tok)
        elif tok in _NO_SPACE_BEFORE or prev in _NO_SPACE_AFTER:
            out.append(tok)
        elif tok == "(" and (prev[-1:].isalnum() or prev[-1:] == "_") and prev.lower() not in (
                "if", "while", "case", "where", "forall", "write", "read", "open", "close",
                "then", "select", "associate", "concurrent", "format", "allocate",
                "deallocate", "is", "elsewhere", "print", "inquire", "rewind"):
            out.append(tok)
        else:
            out.append(" " + tok)
        prev = tok
    return "".join(out)


def stmt_text(st, with_prefix=True):
    body = join_tokens(st.toks)
    if not with_prefix:
        return body
    pre = ""
    if st.label is not None:
        pre += "%d " % st.label
    if st.name is not None:
        pre += "%s: " % st.name
    return pre + body


LITERAL_BODIES = [
    "abc", "hello world", "a!b", "x;y", "p & q", "it''s", 'say "hi"', "100% done", "&", "!",
    "a&", "&b", "tab here", "(/ 1, 2 /)", "end do", "x = 1 ! no", "c", "C  comment?", "*star",
    "  lead", "don''t; stop!", "e1", "1.0e3", "::", "=>", "a,b", ")", "(", "a  b",
]


class Gen:
    def __init__(self, rng, std="f2003", size=20, max_depth=3, features=None):
        self.r = rng
        self.std = std
        self.size = size
        self.max_depth = max_depth
        self.out = []
        self.labels_used = set()
        self.next_label = 10
        self.cnames = 0
        self.features = features or {}
        # per scoping unit
        self.ints = ["i", "j", "k", "n"]
        self.reals = ["x", "y", "z"]
        self.arrs = ["a", "b"]
        self.chars = ["c1", "s2"]
        self.logs = ["flag", "ok"]
        self.shadowed = []
        self.alloc = []
        self.have_type = False
        self.loop_names = []  # stack of (name or None) of enclosing DO constructs
        self.budget = size

    # ------------------------------------------------------------------ helpers
    def emit(self, toks, kind, depth, **kw):
        self.out.append(Stmt(toks, kind, depth, **kw))
        return len(self.out) - 1

    def chance(self, p):
        return self.r.random() < p

    def pick(self, seq):
        return seq[self.r.randrange(len(seq))]

    def new_label(self):
        self.next_label += self.r.choice([1, 5, 10, 10, 90])
        lab = self.next_label
        self.labels_used.add(lab)
        return lab

    def cname(self):
        self.cnames += 1
        return self.pick(["outer", "inner", "lp", "blk", "sel", "chk"]) + str(self.cnames)

    def literal(self):
        body = self.pick(LITERAL_BODIES)
        if self.chance(0.35):
            # double-quoted variant: '' inside needs no doubling but " does
            body2 = body.replace("''", "'").replace('"', '""')
            return '"' + body2 + '"'
        return "'" + body.replace('"', '"') + "'"

    def emit_zoo(self, text, depth, opener=None, f08=False, kind="zoo", simple=False):
        toks = zoo.tokens(text)
        label = None
        name = None
        if len(toks) > 1 and toks[0].isdigit() and not toks[1] in ("=", "*", "+", "-", "/"):
            label = int(toks[0])
            toks = toks[1:]
        if len(toks) > 2 and toks[1] == ":" and toks[0].replace("_", "").isalnum():
            name = toks[0]
            toks = toks[2:]
        return self.emit(toks, kind, depth, label=label, name=name, opener=opener, f08=f08,
                         simple=simple)

    def emit_zoo_group(self, group, depth, f08=False):
        first = self.emit_zoo(group[0], depth, f08=f08, kind="zoo_open")
        for text in group[1:-1]:
            low = text.lower().lstrip("0123456789 ")
            mid = low.startswith(("else", "case", "type is", "class is", "class default",
                                  "contains", "elsewhere", "end ", "enddo")) and \
                not low.startswith("end subroutine x")
            self.emit_zoo(text, depth if mid and not low.startswith("end ") else depth + 1,
                          opener=first, f08=f08, kind="zoo_mid")
        self.emit_zoo(group[-1], depth, opener=first, f08=f08, kind="zoo_close")

    # ------------------------------------------------------------------ expressions
    def int_expr(self, d=0):
        r = self.r.random()
        if d >= 2 or r < 0.35:
            return [self.pick(self.ints)] if self.chance(0.6) else [str(self.r.randrange(0, 100))]
        if r < 0.6:
            return self.int_expr(d + 1) + [self.pick(["+", "-", "*", "/"])] + self.int_expr(d + 1)
        if r < 0.7:
            return ["("] + self.int_expr(d + 1) + [")"]
        if r < 0.8:
            return [self.pick(["mod", "max", "min"]), "("] + self.int_expr(d + 1) + [","] + \
                self.int_expr(d + 1) + [")"]
        if r < 0.88:
            return ["size", "(", self.pick(self.arrs), ")"]
        if r < 0.94:
            return ["(", "-", self.pick(self.ints), ")"]
        return self.int_expr(d + 1) + ["**", str(self.r.randrange(2, 4))]

    def real_lit(self):
        return self.pick(["1.0", "2.5", "0.5e0", "1.0e-3", "3.0d0", "1.e2", ".5", "2.0_8",
                          "6.02E23"])

    def real_expr(self, d=0):
        r = self.r.random()
        if d >= 2 or r < 0.3:
            c = self.r.random()
            if c < 0.4:
                return [self.pick(self.reals)]
            if c < 0.6:
                return [self.real_lit()]
            if c < 0.8:
                return [self.pick(self.arrs), "("] + self.int_expr(2) + [")"]
            return [self.pick(self.reals)]
        if r < 0.55:
            return self.real_expr(d + 1) + [self.pick(["+", "-", "*", "/"])] + self.real_expr(d + 1)
        if r < 0.65:
            return ["("] + self.real_expr(d + 1) + [")"]
        if r < 0.85:
            fn = self.pick(["sin", "cos", "abs", "sqrt", "exp"] + (
                ["hypot"] if False else []))
            if fn in self.shadowed:
                # declared as an array in this scope: an array reference, still valid
                return [fn, "("] + self.int_expr(2) + [")"]
            return [fn, "("] + self.real_expr(d + 1) + [")"]
        if r < 0.92:
            return ["sum", "(", self.pick(self.arrs), ")"] if "sum" not in self.shadowed else \
                [self.pick(self.reals)]
        if r < 0.96:
            return self.real_expr(d + 1) + ["**"] + [self.pick(["2", "n", "(-1)"])]
        return ["real", "("] + self.int_expr(d + 1) + [")"]

    def log_expr(self, d=0):
        r = self.r.random()
        if d >= 2 or r < 0.2:
            return [self.pick(self.logs)] if self.chance(0.5) else [self.pick([".true.", ".false."])]
        if r < 0.6:
            op = self.pick(["<", ">", "<=", ">=", "==", "/=", ".lt.", ".ge.", ".eq.", ".ne."])
            if self.chance(0.5):
                return self.int_expr(1) + [op] + self.int_expr(1)
            return self.real_expr(1) + [op] + self.real_expr(1)
        if r < 0.8:
            return self.log_expr(d + 1) + [self.pick([".and.", ".or.", ".eqv.", ".neqv."])] + \
                self.log_expr(d + 1)
        if r < 0.9:
            return [".not."] + self.log_expr(d + 1)
        return ["("] + self.log_expr(d + 1) + [")"]

    def char_expr(self, d=0):
        r = self.r.random()
        if d >= 1 or r < 0.5:
            return [self.literal()] if self.chance(0.7) else [self.pick(self.chars)]
        if r < 0.8:
            return self.char_expr(d + 1) + ["//"] + self.char_expr(d + 1)
        return ["trim", "(", self.pick(self.chars), ")"]

    # ------------------------------------------------------------------ simple statements
    def assignment(self):
        r = self.r.random()
        if r < 0.3:
            return [self.pick(self.ints), "="] + self.int_expr()
        if r < 0.6:
            return [self.pick(self.reals), "="] + self.real_expr()
        if r < 0.75:
            return [self.pick(self.arrs), "("] + self.int_expr(1) + [")", "="] + self.real_expr()
        if r < 0.87:
            return [self.pick(self.chars), "="] + self.char_expr()
        if r < 0.95:
            return [self.pick(self.logs), "="] + self.log_expr()
        return [self.pick(self.arrs), "(", "1", ":", "3", ")", "=", "(/", "1.0", ",", "2.0", ",",
                "3.0", "/)"]

    def io_stmt(self):
        r = self.r.random()
        if r < 0.3:
            return ["print", "*", ","] + self.io_list()
        if r < 0.6:
            fmt = self.pick(["'(a, i3)'", "'(1x, f8.3)'", "*", '"(a)"', "'(2(i2, 1x), a)'"])
            return ["write", "(", "*", ",", fmt, ")"] + self.io_list()
        if r < 0.7:
            return ["read", "(", "5", ",", "*", ")", self.pick(self.ints + self.reals)]
        if r < 0.8:
            return ["write", "(", "unit", "=", "6", ",", "fmt", "=", "*", ")"] + self.io_list()
        if r < 0.9:
            return ["open", "(", "unit", "=", "10", ",", "file", "=", self.literal(), ")"]
        return ["close", "(", "10", ")"]

    def io_list(self):
        n = self.r.randrange(1, 4)
        toks = []
        for i in range(n):
            if i:
                toks.append(",")
            c = self.r.random()
            toks += self.char_expr(1) if c < 0.45 else (self.int_expr(1) if c < 0.7 else
                                                        self.real_expr(1))
        return toks

    def simple_stmt(self, depth, in_sub):
        """One action statement (no construct)."""
        zrate = self.features.get("zoo", 0.2)
        if zrate and self.chance(zrate):
            pool = zoo.EXEC + (zoo.EXEC_F08 if self.std == "f2008" and
                               self.features.get("f08", True) else [])
            hv = zoo.harvest_single(self.std if self.features.get("f08", True) else "f2003")
            text = self.pick(hv) if hv and self.chance(0.35) else self.pick(pool)
            self.emit_zoo(text, depth, simple=True, f08=text in zoo.EXEC_F08, kind="zoo")
            return
        r = self.r.random()
        lab = None
        if self.chance(0.04):
            lab = self.new_label()
        if r < 0.45:
            toks, kind = self.assignment(), "assign"
        elif r < 0.62:
            toks, kind = self.io_stmt(), "io"
        elif r < 0.72:
            toks, kind = ["call", self.pick(["sub1", "s", "work", "q"]), "("] + \
                self.real_expr(1) + [","] + self.int_expr(1) + [")"], "call"
        elif r < 0.78:
            toks, kind = ["if", "("] + self.log_expr() + [")"] + self.assignment(), "if_stmt"
        elif r < 0.82:
            toks, kind = ["continue"], "continue"
        elif r < 0.86 and self.loop_names:
            nm = self.loop_names[-1]
            kw = self.pick(["cycle", "exit"])
            toks, kind = ([kw, nm] if nm and self.chance(0.6) else [kw]), kw
        elif r < 0.89 and self.alloc:
            w = self.pick(self.alloc)
            if self.chance(0.5):
                toks, kind = ["allocate", "(", w, "("] + self.int_expr(1) + [")", ")"], "allocate"
            else:
                toks, kind = ["deallocate", "(", w, ")"], "deallocate"
        elif r < 0.92:
            toks, kind = ["where", "(", self.pick(self.arrs), ">", "0.0", ")",
                          self.pick(self.arrs), "=", "0.0"], "where_stmt"
        elif r < 0.95:
            toks, kind = ["forall", "(", "i", "=", "1", ":", "n", ")", self.pick(self.arrs),
                          "(", "i", ")", "="] + self.real_expr(1), "forall_stmt"
        elif r < 0.97 and in_sub:
            toks, kind = ["return"], "return"
        elif r < 0.985 and self.std == "f2008" and self.features.get("f08", True):
            toks, kind = ["error", "stop"] + ([self.literal()] if self.chance(0.5) else []), \
                "error_stop"
            self.emit(toks, kind, depth, label=lab, simple=True, f08=True)
            return
        else:
            toks, kind = ["stop"] + ([str(self.r.randrange(1, 9))] if self.chance(0.4) else []), \
                "stop"
        self.emit(toks, kind, depth, label=lab, simple=True)

    # ------------------------------------------------------------------ constructs
    def body(self, depth, in_sub, n=None):
        if n is None:
            n = self.r.randrange(1, 4)
        for _ in range(n):
            if self.budget <= 0:
                break
            self.exec_stmt(depth, in_sub)
        if not n:
            return

    def exec_stmt(self, depth, in_sub):
        self.budget -= 1
        if depth >= self.max_depth or self.chance(0.55):
            self.simple_stmt(depth, in_sub)
            return
        zrate = self.features.get("zoo", 0.2)
        if zrate and self.chance(zrate * 0.6):
            f08 = self.std == "f2008" and self.features.get("f08", True) and self.chance(0.4)
            self.emit_zoo_group(self.pick(zoo.EXEC_GROUPS_F08 if f08 else zoo.EXEC_GROUPS),
                                depth, f08=f08)
            return
        r = self.r.random()
        nm = self.cname() if self.chance(0.3) else None
        if r < 0.22:
            self.if_construct(depth, in_sub, nm)
        elif r < 0.5:
            self.do_construct(depth, in_sub, nm)
        elif r < 0.62:
            self.select_construct(depth, in_sub, nm)
        elif r < 0.70:
            self.where_construct(depth, in_sub)
        elif r < 0.76:
            self.forall_construct(depth, in_sub)
        elif r < 0.84:
            self.associate_construct(depth, in_sub, nm)
        elif r < 0.95 and self.std == "f2008" and self.features.get("f08", True):
            self.f08_construct(depth, in_sub, nm)
        else:
            self.goto_pair(depth, in_sub)

    def if_construct(self, depth, in_sub, nm):
        op = self.emit(["if", "("] + self.log_expr() + [")", "then"], "if_then", depth, name=nm)
        self.body(depth + 1, in_sub)
        for _ in range(self.r.randrange(0, 3)):
            toks = ["else", "if", "("] + self.log_expr() + [")", "then"]
            if self.chance(0.3):
                toks = ["elseif", "("] + toks[3:]
            if nm and self.chance(0.4):
                toks.append(nm)
            self.emit(toks, "else_if", depth, opener=op)
            self.body(depth + 1, in_sub)
        if self.chance(0.5):
            self.emit(["else"] + ([nm] if nm and self.chance(0.4) else []), "else", depth,
                      opener=op)
            self.body(depth + 1, in_sub)
        end = self.pick([["end", "if"], ["endif"]])
        self.emit(end + ([nm] if nm else []), "end_if", depth, opener=op)

    def do_construct(self, depth, in_sub, nm):
        r = self.r.random()
        var = self.pick(["i", "j", "k"])
        ctl = [var, "=", "1", ","] + self.int_expr(1) + ([",", "2"] if self.chance(0.2) else [])
        if r < 0.5:
            op = self.emit(["do"] + ctl, "do", depth, name=nm)
            self.loop_names.append(nm)
            self.body(depth + 1, in_sub)
            self.loop_names.pop()
            end = self.pick([["end", "do"], ["enddo"]])
            self.emit(end + ([nm] if nm else []), "end_do", depth, opener=op)
        elif r < 0.62:
            op = self.emit(["do", "while", "("] + self.log_expr() + [")"], "do_while", depth,
                           name=nm)
            self.loop_names.append(nm)
            self.body(depth + 1, in_sub)
            self.loop_names.pop()
            self.emit(["end", "do"] + ([nm] if nm else []), "end_do", depth, opener=op)
        elif r < 0.70:
            op = self.emit(["do"], "do_forever", depth, name=nm)
            self.loop_names.append(nm)
            self.emit(["if", "("] + self.log_expr() + [")", "exit"], "if_stmt", depth + 1,
                      simple=False)
            self.body(depth + 1, in_sub, 1)
            self.loop_names.pop()
            self.emit(["end", "do"] + ([nm] if nm else []), "end_do", depth, opener=op)
        elif r < 0.88:
            # labelled DO terminated by a labelled CONTINUE (or END DO)
            lab = self.new_label()
            op = self.emit(["do", str(lab)] + ctl, "do_label", depth)
            self.loop_names.append(None)
            self.body(depth + 1, in_sub)
            self.loop_names.pop()
            if self.chance(0.8):
                self.emit(["continue"], "continue_term", depth, label=lab, opener=op)
            else:
                self.emit(["end", "do"], "end_do", depth, label=lab, opener=op)
        else:
            # two nested labelled DOs sharing one terminating label
            lab = self.new_label()
            op = self.emit(["do", str(lab), "i", "=", "1", ",", "3"], "do_label", depth)
            op2 = self.emit(["do", str(lab), "j", "=", "1", ",", "3"], "do_label", depth + 1)
            self.loop_names.append(None)
            self.loop_names.append(None)
            self.body(depth + 2, in_sub, 1)
            self.loop_names.pop()
            self.loop_names.pop()
            self.emit(["continue"], "continue_term", depth, label=lab, opener=op)
            del op2

    def select_construct(self, depth, in_sub, nm):
        op = self.emit(["select", "case", "(", self.pick(self.ints), ")"], "select", depth,
                       name=nm)
        for idx in range(self.r.randrange(1, 4)):
            sel = self.pick([[str(idx + 1)], [str(10 * idx + 10), ":", str(10 * idx + 15)],
                             [":", str(-idx - 1)], [str(100 + idx), ",", str(200 + idx)]])
            self.emit(["case", "("] + sel + [")"] + ([nm] if nm and self.chance(0.3) else []),
                      "case", depth, opener=op)
            self.body(depth + 1, in_sub, self.r.randrange(0, 3))
        if self.chance(0.5):
            self.emit(["case", "default"], "case", depth, opener=op)
            self.body(depth + 1, in_sub, 1)
        self.emit(["end", "select"] + ([nm] if nm else []), "end_select", depth, opener=op)

    def where_construct(self, depth, in_sub):
        a = self.pick(self.arrs)
        op = self.emit(["where", "(", a, ">", "0.0", ")"], "where", depth)
        self.emit([a, "=", "1.0", "/", a], "assign", depth + 1)
        if self.chance(0.5):
            self.emit(["elsewhere"], "elsewhere", depth, opener=op)
            self.emit([a, "=", "0.0"], "assign", depth + 1)
        self.emit(self.pick([["end", "where"], ["endwhere"]]), "end_where", depth, opener=op)

    def forall_construct(self, depth, in_sub):
        a = self.pick(self.arrs)
        op = self.emit(["forall", "(", "i", "=", "1", ":", "n", ",", a, "(", "i", ")", ">", "0.0",
                        ")"], "forall", depth)
        self.emit([a, "(", "i", ")", "="] + self.real_expr(1), "assign", depth + 1)
        self.emit(["end", "forall"], "end_forall", depth, opener=op)

    def associate_construct(self, depth, in_sub, nm):
        op = self.emit(["associate", "(", "v", "=>"] + self.real_expr(1) + [")"], "associate",
                       depth, name=nm)
        self.emit([self.pick(self.reals), "=", "v", "*", "2.0"], "assign", depth + 1)
        self.body(depth + 1, in_sub, self.r.randrange(0, 2))
        self.emit(["end", "associate"] + ([nm] if nm else []), "end_associate", depth, opener=op)

    def f08_construct(self, depth, in_sub, nm):
        r = self.r.random()
        if r < 0.5:
            op = self.emit(["block"], "block", depth, name=nm, f08=True)
            if self.chance(0.6):
                self.emit(["integer", "::", "tmp"], "decl", depth + 1)
            if self.chance(0.3):
                self.emit(["real", "::", self.pick(SHADOW), "(", "4", ")"], "decl", depth + 1)
            self.body(depth + 1, in_sub)
            self.emit(["end", "block"] + ([nm] if nm else []), "end_block", depth, opener=op,
                      f08=True)
        elif r < 0.7:
            op = self.emit(["critical"], "critical", depth, name=nm, f08=True)
            self.body(depth + 1, in_sub, 1)
            self.emit(["end", "critical"] + ([nm] if nm else []), "end_critical", depth,
                      opener=op, f08=True)
        else:
            op = self.emit(["do", "concurrent", "(", "i", "=", "1", ":", "n", ")"],
                           "do_concurrent", depth, name=nm, f08=True)
            self.loop_names.append(nm)
            self.emit([self.pick(self.arrs), "(", "i", ")", "="] + self.real_expr(1), "assign",
                      depth + 1)
            self.loop_names.pop()
            self.emit(["end", "do"] + ([nm] if nm else []), "end_do", depth, opener=op)

    def goto_pair(self, depth, in_sub):
        lab = self.new_label()
        self.emit(["if", "("] + self.log_expr() + [")", self.pick(["goto", "go to"]), str(lab)],
                  "if_stmt", depth)
        self.simple_stmt(depth, in_sub)
        self.emit(["continue"], "continue_target", depth, label=lab)

    # ------------------------------------------------------------------ specification part
    def spec_part(self, depth, uses=()):
        self.shadowed = []
        self.alloc = []
        for mod in uses:
            if self.chance(0.4):
                self.emit(["use", mod], "use", depth)
            elif self.chance(0.5):
                self.emit(["use", mod, ",", "only", ":", self.pick(["aa", "bb", "n"])], "use",
                          depth)
            else:
                self.emit_zoo(self.pick(zoo.USES).replace("use m", "use " + mod), depth,
                              kind="use")
            if self.chance(0.3):
                for text in self.pick(zoo.USE_GROUPS):
                    self.emit_zoo(text.replace("use m", "use " + mod), depth, kind="use")
        if not uses and self.features.get("zoo", 0.2) and self.chance(0.15):
            if self.chance(0.5):
                self.emit_zoo(self.pick(zoo.USES), depth, kind="use")
            else:
                for text in self.pick(zoo.USE_GROUPS):
                    self.emit_zoo(text, depth, kind="use")
        if self.chance(0.8):
            self.emit(["implicit", "none"], "implicit", depth)
        if self.chance(0.3):
            self.emit(["integer", ",", "parameter", "::", "nmax", "=", "10"], "decl", depth)
        self.emit(self.pick([["integer", "::"], ["integer"], ["integer", "(", "kind", "=", "4",
                                                               ")", "::"]]) +
                  ["i", ",", "j", ",", "k", ",", "n"], "decl", depth)
        self.emit(self.pick([["real", "::"], ["real", "(", "8", ")", "::"],
                             ["real", "(", "kind", "=", "8", ")", "::"],
                             ["double", "precision", "::"]]) + ["x", ",", "y", ",", "z"],
                  "decl", depth)
        self.emit(["real", ",", "dimension", "(", "10", ")", "::", "a", ",", "b"], "decl", depth)
        self.emit(self.pick([["character", "(", "len", "=", "20", ")", "::"],
                             ["character", "*", "20"], ["character", "(", "20", ")", "::"]]) +
                  ["c1", ",", "s2"], "decl", depth)
        self.emit(["logical", "::", "flag", ",", "ok"], "decl", depth)
        if self.chance(0.35):
            nm = self.pick(SHADOW)
            self.shadowed.append(nm)
            self.emit(["real", "::", nm, "(", "10", ")"], "decl", depth)
        if self.chance(0.3):
            self.alloc = ["w"]
            self.emit(["real", ",", "allocatable", "::", "w", "(", ":", ")"], "decl", depth)
        if self.chance(0.25):
            op = self.emit(["type", "::", "pt"] if self.chance(0.5) else ["type", "pt"],
                           "type_def", depth)
            self.emit(["real", "::", "cx", ",", "cy"], "decl", depth + 1)
            if self.chance(0.4):
                self.emit(["integer", "::", "tag", "=", "0"], "decl", depth + 1)
            self.emit(["end", "type"] + (["pt"] if self.chance(0.5) else []), "end_type", depth,
                      opener=op)
            self.emit(["type", "(", "pt", ")", "::", "pnt"], "decl", depth)
        if self.chance(0.15):
            op = self.emit(["interface"], "interface", depth)
            op2 = self.emit(["subroutine", "ext", "(", "u", ")"], "subroutine", depth + 1)
            self.emit(["real", "::", "u"], "decl", depth + 2)
            self.emit(["end", "subroutine", "ext"], "end_subroutine", depth + 1, opener=op2)
            self.emit(["end", "interface"], "end_interface", depth, opener=op)
        zrate = self.features.get("zoo", 0.2)
        if zrate and self.chance(zrate * 2.5):
            pool = [t for t in zoo.SPEC if t != "enum, bind(c)"] + (
                zoo.SPEC_F08 if self.std == "f2008" and self.features.get("f08", True) else [])
            for text in self.r.sample(pool, self.r.randrange(1, 5)):
                self.emit_zoo(text, depth, f08=text in zoo.SPEC_F08, kind="decl")
            if self.chance(0.5):
                self.emit_zoo_group(self.pick(zoo.SPEC_GROUPS), depth)
        if self.chance(0.15):
            self.emit(["data", "i", "/", "1", "/"], "data", depth)
        if self.chance(0.12):
            lab = self.new_label()
            self.emit(["format", "(", "1x", ",", "i5", ",", "'ab,c'", ")"], "format", depth,
                      label=lab)

    # ------------------------------------------------------------------ program units
    def subprogram(self, depth, name, allow_contains=False):
        self.loop_names = []
        if self.chance(0.6):
            op = self.emit(["subroutine", name, "(", "u", ",", "v", ")"] if self.chance(0.7) else
                           ["subroutine", name], "subroutine", depth)
            kind, endkw = "end_subroutine", "subroutine"
        else:
            pre = self.pick([[], ["real"], ["pure"], ["integer"]])
            op = self.emit(pre + ["function", name, "(", "u", ")"] +
                           (["result", "(", "res", ")"] if self.chance(0.4) else []), "function",
                           depth)
            kind, endkw = "end_function", "function"
        self.spec_part(depth + 1)
        self.body(depth + 1, True, self.r.randrange(1, 5))
        if allow_contains and self.chance(0.3):
            self.emit(["contains"], "contains", depth, opener=op)
            self.subprogram(depth + 1, self.pick(["inner1", "helper", "s"]))
        self.end_unit(op, depth, kind, endkw, name)

    def end_unit(self, op, depth, kind, endkw, name):
        r = self.r.random()
        if r < 0.15:
            toks = ["end"]
        elif r < 0.4 or name is None:
            toks = ["end", endkw]
        else:
            toks = ["end", endkw, name]
        self.emit(toks, kind, depth, opener=op)

    def main_program(self, name, uses=()):
        self.loop_names = []
        if name is None:
            op = None
        else:
            op = self.emit(["program", name], "program", 0)
        self.spec_part(1, uses)
        self.body(1, False, max(1, self.budget // 2))
        if self.chance(0.35):
            self.emit(["contains"], "contains", 0, opener=op)
            for _ in range(self.r.randrange(1, 3)):
                self.subprogram(1, self.pick(UNIT_NAMES + ["inner1", "helper"]))
        if name is None:
            self.emit(self.pick([["end"], ["end", "program"]]), "end_program", 0, opener=op)
        else:
            self.end_unit(op, 0, "end_program", "program", name)

    def module(self, name):
        op = self.emit(["module", name], "module", 0)
        if self.chance(0.7):
            self.emit(["implicit", "none"], "implicit", 1)
        self.emit(["integer", "::", "aa", ",", "bb"], "decl", 1)
        if self.chance(0.4):
            self.emit(["real", ",", "save", "::", self.pick(SHADOW), "(", "3", ")"], "decl", 1)
        if self.chance(0.7):
            self.emit(["contains"], "contains", 0, opener=op)
            for _ in range(self.r.randrange(1, 3)):
                self.subprogram(1, self.pick(UNIT_NAMES + ["inner1", "helper"]),
                                allow_contains=True)
        self.end_unit(op, 0, "end_module", "module", name)

    def submodule(self, parent, name):
        op = self.emit(["submodule", "(", parent, ")", name], "submodule", 0, f08=True)
        self.emit(["integer", "::", "local_v"], "decl", 1)
        if self.chance(0.6):
            self.emit(["contains"], "contains", 0, opener=op)
            self.subprogram(1, self.pick(["inner1", "helper"]))
        self.end_unit(op, 0, "end_submodule", "submodule", name)
        self.out[-1].f08 = True

    def block_data(self):
        op = self.emit(["block", "data", "bd"], "block_data", 0)
        self.emit(["integer", "::", "ib"], "decl", 1)
        self.emit(["common", "/", "cb", "/", "ib"], "common", 1)
        self.emit(["data", "ib", "/", "3", "/"], "data", 1)
        self.emit(["end", "block", "data", "bd"], "end_block_data", 0, opener=op)

    def program(self):
        """A whole source file: one or more program units."""
        names = list(UNIT_NAMES)
        self.r.shuffle(names)
        nunits = self.r.choice([1, 1, 1, 2, 2, 3])
        mods = []
        had_main = False
        for u in range(nunits):
            self.budget = max(3, self.size // nunits)
            r = self.r.random()
            nm = names[u]
            if r < 0.25 and not had_main or (u == nunits - 1 and not had_main and r < 0.6):
                had_main = True
                # an unnamed main program, alone or followed by further units (fparser then stops
                # reading after its END: a reader that is never read to its end)
                unnamed = self.chance(0.2) and (nunits == 1 or (u == 0 and self.chance(0.5)))
                self.main_program(None if unnamed else nm, mods[:1])
            elif r < 0.55:
                self.module(nm)
                mods.append(nm)
            elif r < 0.62 and self.std == "f2008" and mods and self.features.get("f08", True):
                self.submodule(mods[0], nm)
            elif r < 0.66 and not any(st.kind == "block_data" for st in self.out):
                self.block_data()
            else:
                self.subprogram(0, nm, allow_contains=True)
        return self.out


def generate(rng, std="f2003", size=20, max_depth=3, features=None):
    return Gen(rng, std, size, max_depth, features).program()


def simple_text(stmts, indent=2):
    """Canonical one-statement-per-line free-form rendering."""
    lines = []
    for st in stmts:
        lines.append(" " * (indent * st.depth + (1 if st.depth == 0 else 1)) + stmt_text(st))
    return "\n".join(lines) + "\n"

"""A 'statement zoo': hand-written valid Fortran statements that widen the set of
grammar rules the generated programs reach (fgen mixes them into specification and
execution parts).  Nothing here is assumed valid by a check: a program is valid only
if the pristine reference parse accepts it, and `python -m sim.gen.zoo` lists the
entries the parser under test rejects (they are then simply never "valid" programs).

Entries are written as plain text and tokenised with the damage tokeniser; character
literals stay single tokens.
"""
from . import damage

# Declarations that can follow the standard declarations of fgen.spec_part (names are
# chosen not to clash with them).  f08 marks Fortran 2008-only syntax.
SPEC = [
    "integer, dimension(:), allocatable :: ia",
    "real, pointer :: p1 => null()",
    "real, pointer, dimension(:) :: pv",
    "real, target :: t1(10)",
    "integer, parameter :: ip = selected_real_kind(15, 307)",
    "real(kind=ip) :: xd",
    "character(len=*), parameter :: cs = 'const'",
    "character(len=:), allocatable :: str",
    "character(len=10, kind=1) :: ck",
    "complex :: z1 = (1.0, 2.0)",
    "complex(kind=8) :: z2",
    "integer :: arr(2, 3) = reshape((/1, 2, 3, 4, 5, 6/), (/2, 3/))",
    "logical, save :: first = .true.",
    "real, intent(in) :: uin",
    "real, intent(inout), optional :: uopt(:)",
    "integer, value :: ival",
    "real, external :: fext",
    "external ext2",
    "intrinsic atan2",
    "dimension dm(10)",
    "save",
    "common /blk/ c1x, c2x",
    "common // bl1, bl2",
    "equivalence (x, y)",
    "namelist /nl/ i, j, x",
    "parameter (pi = 3.14159)",
    "data x, y /1.0, 2.0/",
    "data (a(i), i = 1, 3) /3*0.0/",
    "integer, volatile :: vi",
    "real, asynchronous :: ra",
    "integer(kind=4), dimension(0:9, -1:1) :: bnd",
    "real :: mat(3, 3), vec(3)",
    "double precision dp1, dp2",
    "logical(kind=1) :: l1",
    "integer*8 i8",
    "real*4 r4",
    "character c, d*3",
    "character*(*) cstar",
    "procedure(fext), pointer :: pp => null()",
    "procedure(real) :: preal",
    "class(*), pointer :: anyp",
    "type(pt), dimension(5) :: pts",
    "class(pt), allocatable :: cp",
    "enum, bind(c)",
    "public",
    "private :: aa",
    "public :: bb, operator(+), assignment(=)",
    "protected :: aa",
    "allocatable :: ya(:)",
    "pointer :: yp",
    "target :: yt",
    "optional :: u",
    "intent(in) :: u",
    "volatile :: vi2",
    "bind(c, name='cname') :: cvar",
    "100 format (12habcdefghijkl, i3, 3hxyz)",
    "101 format (1x, 2(i3, 1x), /, a, t10, f8.3, es12.4e2, 'lit', 2p, :)",
    "integer, bind(c) :: cint",
]

# USE statements (must precede every other specification statement; fgen places them first)
USES = [
    "use m",
    "use m, only: aa",
    "use m, only: aa, bb",
    "use m, only: loc => aa",
    "use m, loc => aa",
    "use, intrinsic :: iso_c_binding, only: c_int",
    "use m, only: operator(+), assignment(=)",
    "use m, only: read(formatted), write(unformatted)",
    "use m, only: operator(.myop.)",
    "use, non_intrinsic :: m",
    "use m, only:",
    "use m, only: max, sin",
    "use m, only: cos => aa, abs",
]

# several USE statements of one module in one scoping unit (their effects are merged)
USE_GROUPS = [
    ["use m, la => aa", "use m, only: bb"],
    ["use m, only: aa", "use m", "use m, lb => bb"],
    ["use m, only: aa", "use m, only: bb, lc => aa"],
    ["use m", "use m, only:", "use m, only: operator(+)"],
    ["use m, la => aa", "use m, lb => bb", "use m, only: aa"],
    ["use m, only: aa", "use m, only: max, dot_product"],
    ["use m, only: sin", "use m", "use m, only: size => bb"],
]

SPEC_F08 = [
    "real, codimension[*] :: co1",
    "real, contiguous, pointer :: cptr(:)",
    "integer, dimension(10), codimension[2, *] :: co3",
    "procedure(fext), pointer :: pq => fext",
]

# Groups that have to stay together (rendered as consecutive statements).
SPEC_GROUPS = [
    ["enum, bind(c)", "enumerator :: red = 1, blue", "enumerator green", "end enum"],
    ["type :: node", "real :: val = 0.0", "type(node), pointer :: next => null()",
     "end type node"],
    ["type, public :: shape", "private", "integer :: id", "real, dimension(3) :: pos",
     "character(len=8) :: tag = 'none'", "end type shape"],
    ["type, extends(shape) :: circle", "real :: radius", "contains",
     "procedure :: area => circle_area", "procedure, nopass :: describe",
     "generic :: show => area", "final :: circle_done", "end type circle"],
    ["type, abstract :: base", "contains", "procedure(iface), deferred :: run",
     "end type base"],
    ["type seq_t", "sequence", "integer :: s1, s2", "end type"],
    ["type :: parm(k, n)", "integer, kind :: k = 4", "integer, len :: n",
     "real(kind=k) :: v(n)", "end type parm"],
    ["interface operator(+)", "module procedure padd", "end interface"],
    ["interface assignment(=)", "module procedure passign", "end interface assignment(=)"],
    ["interface gen", "module procedure g1, g2", "end interface gen"],
    ["abstract interface", "subroutine iface(self)", "import :: base",
     "class(base), intent(inout) :: self", "end subroutine iface", "end interface"],
    ["interface", "function fext(q) result(r)", "real, intent(in) :: q", "real :: r",
     "end function fext", "end interface"],
    ["interface", "pure elemental real function pe(q)", "real, intent(in) :: q",
     "end function pe", "recursive subroutine rs(n)", "integer :: n", "end subroutine rs",
     "end interface"],
]

# Action statements usable anywhere in an execution part.
EXEC = [
    # characters that str.splitlines() treats as line boundaries but a source file does not
    # (form feed, vertical tab, file/group/record separators, NEL, LS, PS) inside literals
    "c1 = 'pg\x0cbk'",
    'print *, "v\x0bt", \'u\x1c\x1d\x1e\x85w\', "l\u2028p\u2029s"',
    "allocate(w(0:n), ia(1:3))",
    "allocate(w(n), stat=i)",
    "allocate(w(n), stat=i, errmsg=c1)",
    "allocate(character(len=10) :: str)",
    "allocate(cp, source=pnt)",
    "allocate(real :: pv(10))",
    "deallocate(w, stat=i)",
    "deallocate(w, ia)",
    "nullify(p1)",
    "nullify(p1, pv)",
    "p1 => x",
    "p1 => null()",
    "pv => t1(2:5)",
    "pv(1:) => t1",
    "a(1:n:2) = 0.0",
    "a(:) = b(:)",
    "a(2:) = b(:9)",
    "mat(:, 1) = vec",
    "mat(i, j) = vec(i) * vec(j)",
    "pnt%cx = 1.0",
    "pnt%cx = pnt%cy + a(i)",
    "pts(i)%cx = pts(j)%cy",
    "call sub1(x, y=2.0)",
    "call s()",
    "call s",
    "call obj%method(1, flag=.true.)",
    "call sub1(a(1:3), *10)",
    "c1(2:4) = 'abc'",
    "c1 = c1(1:3) // s2(:2)",
    "c1 = repeat('ab', 3) // achar(10)",
    "write(6, 100) i, x",
    "write(unit=6, fmt='(a)', advance='no') 'x'",
    "write(*, '(3(i2, 1x), /, a)') i, j, k, 'e'",
    "write(*, fmt=\"(a, f8.3, es12.4, l2)\") 'v', x, y, flag",
    "write(c1, '(i4)') n",
    "write(*, *) (a(i), i = 1, n)",
    "write(*, *) ((mat(i, j), i = 1, 3), j = 1, 3)",
    "write(6, nml=nl)",
    "read(5, *, iostat=i) x",
    "read(unit=5, fmt=*) (a(i), i = 1, n)",
    "read(c1, '(i4)') n",
    "read *, x, y",
    "read(5, '(a)', end=10, err=20) c1",
    "print '(a)', 'hello'",
    "print 100, x",
    "print *",
    "open(10, file='f.dat', status='old', action='read', iostat=i)",
    "open(unit=11, file=c1, form='unformatted', access='direct', recl=100)",
    "close(unit=10, status='keep')",
    "inquire(file='f.dat', exist=flag)",
    "inquire(unit=10, opened=ok, name=c1)",
    "inquire(iolength=i) x, y",
    "rewind 10",
    "rewind(unit=10)",
    "backspace 10",
    "backspace(10, iostat=i)",
    "endfile 10",
    "flush(10)",
    "wait(10)",
    "if (x > 0) call s()",
    "if (flag) return",
    "if (x) 10, 20, 30",
    "go to 30",
    "goto (10, 20, 30) i",
    "x = merge(1.0, 2.0, flag)",
    "i = int(x, kind=4)",
    "x = real(i, 8)",
    "a = [1.0, 2.0, 3.0]",
    "a(1:3) = [real :: 1, 2, 3]",
    "a(1:3) = (/ (i*1.0, i = 1, 3) /)",
    "a(1:4) = (/ 1.0, (x, i = 1, 2), 4.0 /)",
    "i = size(a, dim=1)",
    "i = ubound(a, 1)",
    "k = iand(i, ishft(j, -2))",
    "x = -y**2",
    "x = (y + z) * (y - z) / 2.0",
    "x = y ** (-z)",
    "x = +y",
    "x = 1.0e+3_8 + 1.d-2 + 2.E0",
    "i = 1_4 + int(z'FF') + b'101' + o'17'",
    "flag = x .gt. y .and. .not. ok .or. i /= j",
    "flag = c1 == 'abc' .neqv. s2 < \"b\"",
    "flag = x .myop. y",
    "flag = .unary. x",
    "z1 = (1.0, -2.0) * cmplx(x, y)",
    "x = real(z1) + aimag(z1) + z1%re",
    "where (a > 0.0) a = sqrt(a)",
    "forall (i = 1:n, j = 1:n, i /= j) mat(i, j) = 0.0",
    "stop 'message'",
    "stop 1",
    "stop",
    "return",
    "continue",
    "entry alt(q)",
    "x = f(i)(2:3)",
    "x = a(i)%b(j)%c",
    "call move_alloc(from=ia, to=ib)",
    "i = len_trim(c1(2:)) + index(c1, 'x', back=.true.)",
    "x = dot_product(vec, mat(:, 2)) + maxval(a, mask=a > 0.0)",
    "ia = pack(arr, arr > 2)",
    "a = spread(x, 1, 10)",
    "select1 = 3",
    "do1 = if1 + end1",
    "if (if == then) else = end",
]

EXEC_F08 = [
    "error stop",
    "error stop 'fatal'",
    "error stop 3",
    "allocate(w(n), mold=a)",
    "open(newunit=i, file='g.dat')",
    "stop n + 1",
    "a = [integer :: ]",
    "x = bessel_j0(y) + hypot(y, z) + norm2(a)",
    "i = findloc(ia, 3, dim=1)",
]

# Constructs given as groups of statements.
EXEC_GROUPS = [
    ["select type (cp)", "type is (pt)", "x = 1.0", "class is (pt)", "x = 2.0", "class default",
     "x = 3.0", "end select"],
    ["sel: select type (q => cp)", "type is (integer)", "i = 1", "type is (character(len=*))",
     "c1 = 'x'", "end select sel"],
    ["associate (aa1 => x, bb1 => a(2:4))", "aa1 = sum(bb1)", "end associate"],
    ["do", "x = x + 1.0", "if (x > 10.0) exit", "end do"],
    ["do 77 i = 1, 3", "a(i) = 0.0", "77 continue"],
    ["do 78 i = 1, 3", "78 a(i) = 1.0"],
    ["do i = n, 1, -1", "if (a(i) < 0.0) cycle", "a(i) = 0.0", "enddo"],
    ["do 79 i = 1, 3", "79 if (i > 1) a(i) = i"],
    ["do 80 i = 1, 3", "80 allocate(w(i))"],
    ["do 81 i = 1, 3", "81 open(10, file='x.dat')"],
    ["do 82 i = 1, 3", "do 82 j = 1, 3", "82 mat(i, j) = 0.0"],
    ["do 84 i = 1, 3", "84 call s()"],
    ["do 85 i = 1, 3", "85 write(*, *) i"],
    ["lpo: do 86 i = 1, 3", "a(i) = 0.0", "86 continue"],
    ["lpq: do 87 i = 1, 3", "a(i) = 0.0", "87 end do lpq"],
    ["lpr: do i = 1, 3", "lps: do while (x > 0.0)", "x = x - 1.0", "end do lps", "end do lpr"],
    ["ifn: if (x > 0.0) then", "y = 1.0", "else ifn", "y = 0.0", "end if ifn"],
    ["where (a > 0.0)", "a = 1.0", "elsewhere (a < -1.0)", "a = -1.0", "elsewhere", "a = 0.0",
     "end where"],
    ["forall (i = 1:3)", "where (mat(i, :) > 0.0) mat(i, :) = 1.0", "vec(i) = 0.0",
     "end forall"],
    ["if (x > 0.0) then", "y = 1.0", "else if (x < 0.0) then", "y = -1.0", "else", "y = 0.0",
     "end if"],
    ["select case (c1(1:1))", "case ('a':'f')", "i = 1", "case ('x', 'y')", "i = 2",
     "case default", "i = 0", "end select"],
    ["select case (flag)", "case (.true.)", "i = 1", "case (.false.)", "i = 0", "end select"],
]

EXEC_GROUPS_F08 = [
    ["block", "real :: tmpb", "tmpb = x", "x = y", "y = tmpb", "end block"],
    ["critical", "x = x + 1.0", "end critical"],
    ["do concurrent (i = 1:n, a(i) > 0.0)", "a(i) = sqrt(a(i))", "end do"],
    ["outerb: block", "integer :: sin", "sin = 2", "innerb: block", "x = cos(y)",
     "end block innerb", "end block outerb"],
]


_HARVEST = None


def harvest_single(std):
    """Single-line statements harvested from fparser's own tests that the parser accepts
    anywhere inside a subprogram (see tools/harvest.py), for the given standard."""
    global _HARVEST
    if _HARVEST is None:
        import json
        import os

        path = os.path.join(os.path.dirname(__file__), "zoo_harvest.json")
        _HARVEST = {"f2003": [], "f2008": []}
        if os.path.exists(path):
            with open(path) as fobj:
                data = json.load(fobj)
            for ent in data.get("exec", []):
                if len(ent["lines"]) == 1 and ent.get("after_exec") and ent.get("in_construct"):
                    text = ent["lines"][0]
                    if text.lower().startswith(("end", "contains", "else", "case", "entry")):
                        continue
                    if not text[:1].isalpha():
                        continue  # e.g. bare numbers: a label without a statement
                    _HARVEST["f2008"].append(text)
                    if ent["std"] == "f2003":
                        _HARVEST["f2003"].append(text)
    return _HARVEST[std if std in _HARVEST else "f2003"]


def tokens(text):
    return [t for t in damage.tokenize(text) if t.strip()]


def _validate():
    """List the zoo entries the parser under test rejects (diagnostic only)."""
    import sys

    sys.path.insert(0, "/verif")
    from sim.kit import fp, target

    target.load()
    bad = 0

    def check(std, body_lines, where):
        nonlocal bad
        parser = fp.create(std)
        if where == "spec":
            text = "subroutine zz(u)\n" + "\n".join(body_lines) + "\nend subroutine zz\n"
        else:
            text = "subroutine zz(u)\nreal :: x\n" + "\n".join(body_lines) + \
                "\nend subroutine zz\n"
        out, _, _ = fp.parse_with(parser, fp.make_reader("string", text, {}))
        if out[0] != "ok":
            bad += 1
            print("%s %s rejected (%s): %s" % (std, where, out[0], " | ".join(body_lines)))

    for s in SPEC:
        if s == "enum, bind(c)":
            continue
        check("f2003", [s], "spec")
    for s in SPEC_F08:
        check("f2008", [s], "spec")
    for g in SPEC_GROUPS:
        check("f2003", g, "spec")
    for s in EXEC:
        check("f2003", [s], "exec")
    for s in EXEC + EXEC_F08:
        check("f2008", [s], "exec")
    for g in EXEC_GROUPS:
        check("f2003", g, "exec")
    for g in EXEC_GROUPS + EXEC_GROUPS_F08:
        check("f2008", g, "exec")
    print("rejected entries:", bad)


if __name__ == "__main__":
    _validate()

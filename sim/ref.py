"""The reference oracle: what a *fresh process* does.

outcome(std, kind, source, opts, image) is computed in a child forked from a process
that has never parsed anything (the run child calls this before its first operation,
or the call is made from a still-pristine process), so it equals
"fresh process: create(std); parse(source)".
"""
import os

from .kit import forkrun, fp, host


def _ref_child(arg):
    std, kind, source, opts, image, want = arg
    stats = host.new_stats()
    fs = None
    host.install_log_counter()
    if image is not None:
        fs = host.SimFS({k: (None if v is None else v.encode("latin-1")) for k, v in image.items()},
                        {}, stats).install("ref-%d" % os.getpid())
    try:
        parser = fp.create(std)
        try:
            reader = fp.make_reader(kind, source, opts, fs=fs, stats=stats)
        except BaseException as err:  # noqa: B902
            import sys

            out = fp.classify_exception(err, sys.exc_info()[2])
            return {"outcome": ["construct-" + out[0]] + out[1:]}
        outcome, tree, _ = fp.parse_with(parser, reader, want_tree=bool(want))
        doc = {"outcome": outcome, "tables": fp.tables_snapshot()}
        if tree is not None and want:
            if "structure" in want:
                doc["structure_hash"] = fp.structure_hash(tree)
            if "wellformed" in want:
                doc["wellformed"] = fp.wellformed(tree)
            if "classes" in want:
                doc["classes"] = fp.node_classes(tree)
            if "stmts" in want:
                doc["stmts"] = statement_list(tree)
                doc["n_line_items"] = count_line_items(tree)
        return doc
    finally:
        if fs is not None:
            fs.uninstall()


def statement_list(tree):
    """The tree's statements in walk order as (class name, str) pairs."""
    from fparser.two.utils import walk, Base, StmtBase, BlockBase
    from fparser.two.Fortran2003 import Comment, Include_Stmt

    out = []
    for node in walk(tree):
        if not isinstance(node, Base) or isinstance(node, BlockBase):
            continue
        if isinstance(node, (StmtBase, Comment, Include_Stmt)) or \
                type(node).__name__.startswith("Cpp_") and getattr(node, "item", None) is not None:
            try:
                out.append([type(node).__name__, str(node)])
            except Exception as err:
                out.append([type(node).__name__, "<str raised %s>" % type(err).__name__])
    return out


def count_line_items(tree):
    """Number of distinct reader Line items the tree's nodes refer to = number of source
    statements that made it into the tree."""
    from fparser.common.readfortran import Line

    from .kit import fp as _fp

    seen = set()
    for node, _ in _fp.iter_nodes(tree):
        item = getattr(node, "item", None)
        if isinstance(item, Line):
            seen.add(id(item))
    return len(seen)


def outcome(std, kind, source, opts, image=None, want=None, timeout=60.0):
    doc = forkrun.call_in_child(_ref_child, (std, kind, source, opts, image, want), timeout)
    if doc.get("status") != forkrun.STATUS_OK:
        return {"outcome": ["ref-" + str(doc.get("status")), doc.get("error", "")]}
    return doc["value"]

"""./check <property> quick|thorough [--replay file]"""
import importlib
import os
import sys


def main(argv):
    if len(argv) < 2:
        print(__doc__)
        return 2
    # pin hash randomisation so that even accidental hash dependence inside fparser
    # (reader.id uses hash(string)) is reproducible; the determinism self-test varies it
    if os.environ.get("PYTHONHASHSEED") is None:
        os.environ["PYTHONHASHSEED"] = "0"
        os.execv(sys.executable, [sys.executable, "-m", "sim.cli"] + argv)
    pid = argv[0].lower()
    replay = None
    tier = os.environ.get("VERIF_TIER") or "quick"
    rest = argv[1:]
    while rest:
        tok = rest.pop(0)
        if tok == "--replay":
            replay = rest.pop(0)
        elif tok in ("quick", "thorough"):
            tier = tok
    if pid.startswith("selftest"):
        mod = importlib.import_module("selftest." + pid.replace("selftest-", "").replace("-", "_"))
        return mod.main(rest)
    from sim.kit import driver

    prop = importlib.import_module("sim.props." + pid)
    return driver.main(prop, tier, replay)


if __name__ == "__main__":
    sys.exit(main(sys.argv[1:]))

"""Deterministic simulation harness for stfc/fparser (see /verif/DESIGN.md)."""

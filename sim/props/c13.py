"""C13 -- INCLUDE resolution is transparent; unresolved includes are kept.

System under simulation: a main source plus up to 3 (possibly nested) include files
on a simulated file system with an include search path, read by the real string /
file reader and parsed by the real parser.  Reference: the parse of the inlined text
in a pristine process.  Faults: file absent / a directory of that name / present only
off the path / zero-length / invalid UTF-8 / EACCES; decoy files in later directories.
"""
import os

from .. import ref
from ..gen import fgen, layout
from ..kit import fp, host, rng
from . import c12

ID = "C13"
hang_is_violation = False

TIERS = {
    "quick": {"budget_s": 75, "size": (4, 22), "walk_ops": 30, "run_timeout": 90.0,
              "determinism_every": 40},
    "thorough": {"budget_s": 1200, "size": (4, 60), "walk_ops": 80, "run_timeout": 120.0,
                 "determinism_every": 300, "determinism_max": 200},
}

RULE = ("one run = one valid generated program, a seeded split of its statement lines into a "
        "main text and up to 3 include files (arbitrary contiguous runs, nesting <= 2), a seeded "
        "placement of the files in directories d1..d3 with decoys in later directories, a "
        "permutation of include_dirs, reader kind (string/file) and comment option, and a fault "
        "plan for the include files; the parse is compared with the inlined reference, "
        "unresolved includes with the reference of 'program minus run', and the reader-level "
        "item stream (also under a get/restore walk) with the inlined stream; non-trivial = at "
        "least one include resolved or kept and a comparison made; distinct = distinct event-log "
        "digest")
ASSUMPTIONS = [
    "reference = same parser on the inlined text in a pristine process",
    "EACCES and zero-length include files are observations, not verdicts",
    "line spans of included items are file-relative and not compared",
    "an unresolved include is judged only when the reference accepts the program without the "
    "moved run and the run is balanced (the property's proviso)",
]
COMPONENTS = {
    "real": ["fparser.common.readfortran (include search, nested readers, put_item delegation)",
             "fparser.two (parser, Include_Stmt)", "os.path.exists/isfile on the mirrored "
             "directory", "CPython io/codecs"],
    "stub": ["file system (SimFS image + per-path fault plan)", "the consumer in reader-level "
             "walks"],
}
PROBES = ["unresolved_mixed_with_resolved", "same_file_included_twice", "only_in_cwd_off_path", "pushback_while_include_reader_active", "include_exhausted_with_items_pushed_back",
          "nested_depth_2", "shadowing_decoy_present", "include_first_line_of_main",
          "include_last_line_of_main", "fragment_starts_with_label", "fragment_starts_with_c",
          "unresolved_include_checked", "resolved_include_compared", "directory_named_like_file",
          "only_off_path", "invalid_utf8_fragment", "eacces_observed", "empty_file_observed"]
STATE_MEASURE = ("distinct (number of files, nesting, kind of the statement before / at each cut, "
                 "directory permutation, reader kind, absent set) tuples")

DIRS = ["d1", "d2", "d3"]


# --------------------------------------------------------------------------- generation
def _balanced(cstmts, i, j):
    """Is the run of chunks i..j balanced (every opener/closer pair wholly inside or wholly
    outside the run)?"""
    inside = set(range(i, j + 1))
    for k, st in enumerate(cstmts):
        for op in st.openers:
            if (k in inside) != (op in inside):
                return False
    return True


def generate(run_seed, cfg):
    st = rng.Streams(run_seed)
    sw = st("swarm")
    std = sw.choice(["f2003", "f2008"])
    size = sw.randrange(cfg["size"][0], cfg["size"][1] + 1)
    stmts = fgen.generate(st("workload"), std, size, max_depth=sw.randrange(1, 4))
    form = sw.choice(["simple", "simple", "free", "fixed"])
    if form == "simple":
        indent0 = sw.choice([1, 1, 0, 2])
        lines = [" " * (2 * s.depth + indent0) + fgen.stmt_text(s) for s in stmts]
        groups = [[k] for k in range(len(stmts))]
    else:
        # multi-line chunks: one chunk = the physical lines of one statement group (all
        # statements sharing a span, i.e. ';'-joined) plus the comment / blank lines before it
        if form == "free":
            rend = layout.render_free(stmts, st("layout"), {
                "max_cuts": sw.choice([0, 1, 2]), "comments": sw.choice([0, 0.15]),
                "semi": sw.choice([0, 0.1]), "lead_amp": sw.choice([0.0, 0.5, 1.0]),
                "base_indent": sw.choice([0, 1, 2]), "token_cut": False, "cpp": 0,
                "trail": sw.choice([0, 0.15]), "cont_comment": sw.choice([0, 0.2])})
        else:
            rend = layout.render_fixed(stmts, st("layout"), {
                "max_cuts": sw.choice([0, 1]), "comments": sw.choice([0, 0.15]),
                "semi": 0, "cpp": 0, "trail": 0, "cont_comment": sw.choice([0, 0.2])})
        spans = []
        groups = []
        for k, item in enumerate(rend.items):
            sp = tuple(item["span"])
            if spans and spans[-1] == sp:
                groups[-1].append(k)
            else:
                spans.append(sp)
                groups.append([k])
        lines = []
        prev = 0
        for gi, sp in enumerate(spans):
            hi = sp[1] if gi < len(spans) - 1 else len(rend.lines)
            lines.append("\n".join(rend.lines[prev:hi]))
            prev = hi
    # a "line" below is one chunk (possibly several physical lines); per-chunk statement info
    first_of = [g[0] for g in groups]
    chunk_of = {}
    for gi, g in enumerate(groups):
        for k in g:
            chunk_of[k] = gi

    class _C:  # chunk-level view of the statement records, for _balanced()
        pass

    cstmts = []
    for gi, g in enumerate(groups):
        c = _C()
        c.kind = stmts[g[0]].kind
        ops = [stmts[k].opener for k in g if stmts[k].opener is not None]
        c.opener = None
        c.openers = sorted({chunk_of[o] for o in ops})
        cstmts.append(c)
    n = len(lines)
    # ---- choose runs
    absent_mode = sw.random() < 0.35
    runs = []  # (i, j, parent index or None)

    def pick_run(lo, hi, want_balanced):
        for _ in range(30):
            i = sw.randrange(lo, hi + 1)
            j = min(hi, i + sw.choice([0, 0, 1, 2, 3, 5, 8]))
            if not want_balanced or _balanced(cstmts, i, j):
                return (i, j)
        return None

    first = pick_run(0, n - 1, absent_mode)
    if first is None:
        first = (n // 2, n // 2)
        absent_mode = False
    runs.append((first[0], first[1], None))
    if absent_mode and sw.random() < 0.45:
        # an unresolved INCLUDE mixed with a resolved one: a second, resolvable run directly
        # after the absent one, or anywhere else outside it
        if first[1] + 1 <= n - 1 and sw.random() < 0.6:
            j2 = min(n - 1, first[1] + 1 + sw.choice([0, 0, 1, 3]))
            runs.append((first[1] + 1, j2, None))
        else:
            for _ in range(20):
                other = pick_run(0, n - 1, False)
                if other and (other[1] < first[0] or other[0] > first[1]):
                    runs.append((other[0], other[1], None))
                    break
    if not absent_mode:
        if first[1] - first[0] >= 2 and sw.random() < 0.5:
            inner = pick_run(first[0], first[1], False)
            if inner and (inner[0] > first[0] or inner[1] < first[1]):
                runs.append((inner[0], inner[1], 0))
        if sw.random() < 0.5:
            for _ in range(20):
                other = pick_run(0, n - 1, False)
                if other and (other[1] < first[0] or other[0] > first[1]):
                    runs.append((other[0], other[1], None))
                    break
    names = ["inc_a.inc", "part_b.h", "c_frag.f90"][: len(runs)]
    twice = False
    if not absent_mode and len(runs) == 1 and _balanced(cstmts, first[0], first[1]) and \
            sw.random() < 0.5 and first[1] - first[0] < 6:
        # the same file included twice in a row: the run is duplicated in the inlined program
        # and both copies are replaced by an INCLUDE of one and the same file
        i, j = first
        dup = j - i + 1
        lines = lines[: j + 1] + lines[i: j + 1] + lines[j + 1:]
        first_of = first_of[: j + 1] + first_of[i: j + 1] + first_of[j + 1:]
        groups = groups[: j + 1] + groups[i: j + 1] + groups[j + 1:]
        runs.append((j + 1, j + dup, None))
        names = ["inc_a.inc", "inc_a.inc"]
        n = len(lines)
        twice = True
    inc_fmt = [[sw.choice(["include", "INCLUDE", "Include"]), sw.choice(["'", '"']),
                (sw.choice([6, 6, 8]) if form == "fixed" else sw.choice([0, 1, 3, 6])),
                sw.choice([" ", " ", " ", "", "   "]), sw.choice(["", "", "  "])]
               for _ in runs]
    # ---- directories, decoys, search path
    perm = DIRS[:]
    sw.shuffle(perm)
    include_dirs = perm[: sw.randrange(1, 4)]
    use_default_dirs = sw.random() < 0.15
    kind = sw.choice(["string", "file"])
    main_path = "main.f90" if sw.random() < 0.7 else "src/main.f90"
    place = {}
    fault = {}
    absent = []
    for k, nm in enumerate(names):
        place[nm] = {"real": [], "decoy": [], "isdir": []}
        if absent_mode and k == 0:
            how = sw.choice(["absent", "absent", "isdir", "off_path", "cwd_only"])
            absent.append(nm)
            if how == "cwd_only":
                # present only in the process's current directory, which is not on the explicit
                # include path: must stay unresolved
                if use_default_dirs:
                    how = "absent"
                else:
                    place[nm]["real"].append(nm)
            if how == "isdir":
                place[nm]["isdir"].append("%s/%s" % (include_dirs[0], nm))
            elif how == "off_path":
                off = [d for d in DIRS if d not in include_dirs]
                if off and not use_default_dirs:
                    place[nm]["real"].append("%s/%s" % (off[0], nm))
                else:
                    how = "absent"
            fault[nm] = how
            continue
        if use_default_dirs:
            # default search path: directory of the main file (file reader) then "."
            base = os.path.dirname(main_path) if (kind == "file" and sw.random() < 0.5) else ""
            place[nm]["real"].append(os.path.join(base, nm) if base else nm)
            continue
        pos = sw.randrange(len(include_dirs))
        place[nm]["real"].append("%s/%s" % (include_dirs[pos], nm))
        for later in include_dirs[pos + 1:]:
            if sw.random() < 0.6:
                place[nm]["decoy"].append("%s/%s" % (later, nm))
                fault.setdefault(nm, "decoy")
    # ---- optional observation-only / decode faults on a resolvable file
    obs = None
    cand = [] if twice else [nm for nm in names if nm not in absent]
    if cand and sw.random() < 0.12:
        nm = sw.choice(cand)
        obs = [nm, sw.choice(["eacces", "empty"])]
    bad_utf8 = None
    if cand and obs is None and sw.random() < 0.12:
        bad_utf8 = sw.choice(cand)
    walk = []
    w = st("walk")
    for _ in range(cfg["walk_ops"]):
        r = w.random()
        if r < 0.6:
            walk.append(["get"])
        else:
            walk.append(["restore", w.randrange(0, 6)])
    walk.append(["drain"])
    case = {"prop": ID, "std": std, "lines": lines, "runs": [list(r) for r in runs],
            "names": names, "inc_fmt": inc_fmt, "place": place,
            "include_dirs": None if use_default_dirs else include_dirs, "reader": kind,
            "main_path": main_path, "absent": absent, "fault": fault, "obs": obs,
            "bad_utf8": bad_utf8, "ignore_comments": sw.random() < 0.6, "walk": walk,
            "kinds": [stmts[k].kind for k in first_of],
            "labels": [stmts[k].label for k in first_of], "form": form,
            "chunk_nstmts": [len(g) for g in groups]}
    return materialise(case)


DECOY_TEXT = " decoy_var = 424242\n"


def materialise(case):
    """(Re)compute the main text and the file-system image from lines / runs / placement."""
    lines, runs, names, fmt = case["lines"], case["runs"], case["names"], case["inc_fmt"]

    def inc_line(k):
        kw, quote, ind = fmt[k][:3]
        sep = fmt[k][3] if len(fmt[k]) > 3 else " "      # the blank after INCLUDE is optional
        trail = fmt[k][4] if len(fmt[k]) > 4 else ""
        return " " * ind + "%s%s%s%s%s%s" % (kw, sep, quote, names[k], quote, trail)

    def render(lo, hi, exclude):
        out = []
        k = lo
        while k <= hi:
            child = next((c for c in exclude if runs[c][0] == k), None)
            if child is not None:
                out.append(inc_line(child))
                k = runs[child][1] + 1
            else:
                out.append(lines[k])
                k += 1
        return out

    children = {None: [k for k, r in enumerate(runs) if r[2] is None]}
    for k in range(len(runs)):
        children[k] = [c for c, rr in enumerate(runs) if rr[2] == k]
    case["main_lines"] = render(0, len(lines) - 1, children[None])
    image = {}
    for k, nm in enumerate(names):
        frag = "\n".join(render(runs[k][0], runs[k][1], children[k])) + "\n"
        for pth in case["place"][nm]["real"]:
            image[pth] = frag
        for pth in case["place"][nm]["decoy"]:
            image[pth] = DECOY_TEXT
        for pth in case["place"][nm]["isdir"]:
            image[pth] = None
    for d in DIRS:
        image.setdefault(d + "/.keep", "")
    case["image"] = image
    return case


def sample_view(case):
    view = {k: case[k] for k in ("std", "runs", "names", "include_dirs", "reader", "main_path",
                                 "absent", "fault", "obs", "bad_utf8", "ignore_comments")}
    view["main_lines"] = case["main_lines"][:30]
    view["image"] = {k: (v[:200] if isinstance(v, str) else v) for k, v in case["image"].items()}
    return view


# --------------------------------------------------------------------------- execution
def _encode_image(case):
    image = {}
    for path, text in case["image"].items():
        if text is None:
            image[path] = None
            continue
        data = text.encode("utf-8")
        if case.get("bad_utf8") and path.endswith("/" + case["bad_utf8"]) or \
                path == case.get("bad_utf8"):
            # an extra last line holding a comment with undecodable bytes: the decoded text
            # (bad bytes skipped) equals the fragment plus that comment line
            data = data + b" ! caf\xff\xfe\n"
        image[path] = data
    return image


def _open_reader(case, fs, opts):
    main_text = "\n".join(case["main_lines"]) + "\n"
    o = dict(opts)
    if case["include_dirs"] is not None:
        o["include_dirs"] = list(case["include_dirs"])
    if case["reader"] == "string":
        return fp.make_reader("string", main_text, o)
    return fp.make_reader("file", case["main_path"], o, fs=fs)


def _sig_nospan(item):
    s = c12.item_sig(item)
    return None if s is None else s[:4]


def execute(case):
    stats = host.new_stats()
    events = []
    violations = []
    state_keys = set()

    def probe(name, n=1):
        stats["probes"][name] = stats["probes"].get(name, 0) + n

    def violate(clause, site, detail):
        violations.append({"clause": clause, "site": site, "detail": detail})

    opts = {"ignore_comments": case["ignore_comments"]}
    std = case["std"]
    lines = case["lines"]
    runs = case["runs"]
    inl_lines = list(lines)
    if case.get("bad_utf8"):
        # the decoded fragment carries an extra comment line after its last line
        k = case["names"].index(case["bad_utf8"])
        inl_lines[runs[k][1]] = inl_lines[runs[k][1]] + "\n ! caf"
    inlined = "\n".join(inl_lines) + "\n"
    # ---- references first (pristine)
    ref_full = ref.outcome(std, "string", inlined, opts, want=["stmts"])
    absent = case["absent"]
    ref_minus = None
    if absent:
        k = case["names"].index(absent[0])
        i, j = runs[k][0], runs[k][1]
        minus = "\n".join(inl_lines[:i] + inl_lines[j + 1:]) + "\n"
        if minus.strip():  # a source consisting of the INCLUDE line only is not judged
            ref_minus = ref.outcome(std, "string", minus, opts, want=["stmts"])
    from fparser.common import sourceinfo

    main_text_probe = "\n".join(case["main_lines"]) + "\n"
    if sourceinfo.get_source_info_str(main_text_probe).is_free != \
            sourceinfo.get_source_info_str(inlined).is_free:
        # e.g. the whole program moved into the include file and the remaining INCLUDE line
        # indented by six blanks: which form the main text is in is C05's question
        return {"events": [["form-mismatch"]], "violations": [], "stats": stats,
                "nontrivial": False, "state_keys": [],
                "discarded": "main-text-detected-in-another-source-form-than-the-inlined-text"}
    # soundness guard: the reference tree must hold at least one statement per source statement.
    # (fparser silently drops the rest of an execution part after e.g. a labelled DO whose
    # terminator it does not recognise -- C01/C08's question; such a run is not judged here.)
    nst = sum(case.get("chunk_nstmts") or [1] * len(lines))
    if ref_full["outcome"][0] == "ok" and ref_full.get("n_line_items", nst) < nst:
        return {"events": [["ref-drops-statements"]], "violations": [], "stats": stats,
                "nontrivial": False, "state_keys": [],
                "discarded": "reference-tree-drops-statements-of-the-generated-program"}
    if ref_full["outcome"][0] != "ok":
        return {"events": [["ref-rejects", ref_full["outcome"][0]]], "violations": [],
                "stats": stats, "nontrivial": False, "state_keys": [],
                "discarded": "reference-rejects-generated-program"}

    image = _encode_image(case)
    main_text = "\n".join(case["main_lines"]) + "\n"
    image[case["main_path"]] = main_text.encode("utf-8")
    faults = {}
    if case.get("obs") and case["obs"][1] == "eacces":
        for path in image:
            if path.endswith(case["obs"][0]):
                faults[path] = {"eacces": True}
    if case.get("obs") and case["obs"][1] == "empty":
        for path in list(image):
            if path.endswith(case["obs"][0]) and image[path] is not None:
                image[path] = b""
    fs = host.SimFS(image, faults, stats).install("c13-%d" % os.getpid())
    host.install_log_counter()
    try:
        # probes about the shape of the split
        for k, r in enumerate(runs):
            frag_first = lines[r[0]].lstrip()
            if case["labels"][r[0]] is not None:
                probe("fragment_starts_with_label")
            if lines[r[0]][:1] in "cC*" or (frag_first[:1] in "cC" and lines[r[0]][:1] != " "):
                probe("fragment_starts_with_c")
            if r[2] is not None:
                probe("nested_depth_2")
            if r[2] is None and r[0] == 0:
                probe("include_first_line_of_main")
            if r[2] is None and r[1] == len(lines) - 1:
                probe("include_last_line_of_main")
        if len(set(case["names"])) < len(case["names"]):
            probe("same_file_included_twice")
        if case["absent"] and len(case["names"]) > 1:
            probe("unresolved_mixed_with_resolved")
        for nm, how in case["fault"].items():
            if how == "decoy":
                probe("shadowing_decoy_present")
            if how == "isdir":
                probe("directory_named_like_file")
            if how == "off_path":
                probe("only_off_path")
            if how == "cwd_only":
                probe("only_in_cwd_off_path")
        if case.get("bad_utf8"):
            probe("invalid_utf8_fragment")

        parser = fp.create(std)
        reader = _open_reader(case, fs, opts)
        outcome, tree, exc = fp.parse_with(parser, reader, want_tree=True)
        events.append(["parse", case["reader"], fp.outcome_digest(outcome)])
        cutkinds = tuple((case["kinds"][r[0] - 1] if r[0] else "<start>", case["kinds"][r[0]])
                         for r in runs)
        state_keys.add((len(runs), sum(1 for r in runs if r[2] is not None), cutkinds,
                        tuple(case["include_dirs"] or ["<default>"]), case["reader"],
                        tuple(absent)))
        compared = False
        if case.get("obs"):
            # observation only: EACCES / empty include file
            probe("eacces_observed" if case["obs"][1] == "eacces" else "empty_file_observed")
            stats.setdefault("counters", {})["obs_%s_%s" % (case["obs"][1], outcome[0])] = 1
        elif not absent:
            # ---------------- (a)/(b) resolved includes == inlined text
            probe("resolved_include_compared")
            compared = True
            if not fp.same_outcome(outcome, ref_full["outcome"]):
                k = 0
                r = runs[k]
                first_line = lines[r[0]]
                if outcome[0] == "ok" and "decoy_var" in outcome[2]:
                    hint = "decoy-statement-in-tree"
                elif any(rr[2] is not None for rr in runs):
                    hint = "nested-include"
                elif len(runs) > 1:
                    hint = "several-includes"
                else:
                    hint = "single-include"
                what = outcome[0] if outcome[0] != "ok" else "tree-differs"
                violate("C13.a included-differs-from-inlined", "%s/%s" % (what, hint),
                        {"got": fp.outcome_digest(outcome), "fragment_first_line": first_line,
                         "main": case["main_lines"][:40], "run": r,
                         "got_str": outcome[2][:600] if outcome[0] == "ok" else None})
        elif ref_minus is not None and ref_minus["outcome"][0] == "ok":
            # ---------------- (c) unresolved include kept as Include_Stmt at the cut
            probe("unresolved_include_checked")
            compared = True
            k = case["names"].index(absent[0])
            enclosing = _enclosing_kind(case, runs[k][0])
            if outcome[0] != "ok":
                violate("C13.c unresolved-include-rejected", "%s/inside:%s" % (outcome[0],
                                                                               enclosing),
                        {"main": case["main_lines"][:40], "got": fp.outcome_digest(outcome)})
            else:
                got = ref.statement_list(tree)
                want = ref_minus["stmts"]
                incs = [g for g in got if g[0] == "Include_Stmt"]
                rest = [g for g in got if g[0] != "Include_Stmt"]
                exp_inc = "INCLUDE '%s'" % absent[0]
                if len(incs) != 1 or incs[0][1] != exp_inc:
                    violate("C13.c include-stmt-node-missing-or-wrong", "inside:%s" % enclosing,
                            {"includes": incs, "expected": exp_inc})
                elif rest != want:
                    violate("C13.c statements-around-unresolved-include-changed",
                            "inside:%s" % enclosing, {"got": rest[:10], "want": want[:10]})
                else:
                    # position: the Include_Stmt's item sits on the include line of the main text
                    from fparser.two.Fortran2003 import Include_Stmt
                    from fparser.two.utils import walk

                    node = walk(tree, Include_Stmt)[0]
                    inc_line_no = 1 + next(i for i, ln in enumerate(main_text.split("\n"))
                                           if absent[0] in ln)
                    span = getattr(getattr(node, "item", None), "span", None)
                    # (with further, resolved includes the spans of their items are relative to
                    # other files, so the monotone-span check only applies without them)
                    order_ok = len(case["names"]) > 1 or _walk_order_consistent(tree)
                    if span is None or span[0] != inc_line_no or not order_ok:
                        violate("C13.c include-stmt-at-wrong-position", "inside:%s" % enclosing,
                                {"span": span, "line": inc_line_no, "order_ok": order_ok})
                    text_lines = [ln.strip() for ln in outcome[2].split("\n")]
                    if text_lines.count(exp_inc) != 1:
                        violate("C13.c include-not-re-emitted", "inside:%s" % enclosing,
                                {"count": text_lines.count(exp_inc)})
                    else:
                        wl = [ln.strip() for ln in ref_minus["outcome"][2].split("\n")]
                        tl = list(text_lines)
                        tl.remove(exp_inc)
                        if [x for x in tl if x] != [x for x in wl if x]:
                            violate("C13.c text-around-unresolved-include-changed",
                                    "inside:%s" % enclosing, {})
            bad = fp.wellformed(tree) if tree is not None else []
            if bad:
                stats.setdefault("counters", {})["c10_monitor_" + ",".join(bad)] = 1
        # ---------------- (d) reader level: include stream == inlined stream, also under walks
        if not absent and not case.get("obs"):
            rdr = _open_reader(case, fs, opts)
            got = [_sig_nospan(it) for it in rdr]
            want = [_sig_nospan(it) for it in fp.make_reader("string", inlined, opts)]
            events.append(["items", fp.sha(repr(got)), fp.sha(repr(want))])
            if got != want:
                k = next((i for i, (a, b) in enumerate(zip(got, want)) if a != b),
                         min(len(got), len(want)))
                violate("C13.d item-stream-differs-from-inlined", "plain-iteration",
                        {"index": k, "got": got[k:k + 2], "want": want[k:k + 2]})
            else:
                compared = True
                rdr = _open_reader(case, fs, opts)
                cursor = 0
                stack = []
                for op in case["walk"]:
                    if op[0] == "get":
                        item = rdr.get_item()
                        sig = _sig_nospan(item)
                        exp = want[cursor] if cursor < len(want) else None
                        if sig != exp:
                            violate("C13.d stream-changed-by-putback-across-include", "walk",
                                    {"cursor": cursor, "got": sig, "want": exp,
                                     "main": case["main_lines"][:30]})
                            break
                        if item is not None:
                            stack.append(item)
                            cursor += 1
                    elif op[0] == "restore":
                        j = min(op[1], len(stack))
                        active_before = rdr.reader is not None
                        for _ in range(j):
                            rdr.put_item(stack.pop())
                            cursor -= 1
                        if j and active_before:
                            probe("pushback_while_include_reader_active")
                            inner = rdr.reader
                            if inner is not None and inner.isclosed:
                                probe("include_exhausted_with_items_pushed_back")
                    elif op[0] == "drain":
                        rest = []
                        while True:
                            item = rdr.get_item()
                            if item is None or len(rest) > len(want) + 5:
                                break
                            rest.append(_sig_nospan(item))
                        if rest != want[cursor:]:
                            violate("C13.d remaining-stream-changed-across-include", "walk",
                                    {"cursor": cursor, "got": rest[:3], "want": want[cursor:cursor + 3]})
                events.append(["walk", cursor])
        stats["logical"]["ops"] = 2 + len(case["walk"])
        stats["logical"]["files"] = len(case["names"])
        return {"events": events, "violations": violations, "stats": stats,
                "nontrivial": compared, "state_keys": [list(map(str, s)) for s in
                                                       sorted(state_keys, key=str)],
                "discarded": None}
    finally:
        fs.uninstall()


def _walk_order_consistent(tree):
    from fparser.two.utils import StmtBase, walk

    last = 0
    for node in walk(tree, StmtBase):
        item = getattr(node, "item", None)
        span = getattr(item, "span", None)
        if span is None:
            continue
        if span[0] < last:
            return False
        last = span[0]
    return True


def _enclosing_kind(case, line_idx):
    depth = None
    kinds = case["kinds"]
    lines = case["lines"]
    cur = len(lines[line_idx]) - len(lines[line_idx].lstrip())
    for k in range(line_idx - 1, -1, -1):
        ind = len(lines[k]) - len(lines[k].lstrip())
        if ind < cur:
            return kinds[k]
    del depth
    return "<top>"


def _first_diff_run(case, outcome, ref_full):
    """Index of the run most likely responsible (first run, by default)."""
    return 0


# --------------------------------------------------------------------------- shrinking
def shrink_candidates(case):
    """Smaller cases: no walk, string reader, comments ignored, fewer include files (a run is
    inlined back into its parent), fewer statements (lines dropped, runs re-indexed)."""
    import copy

    if case["walk"] != [["drain"]]:
        c = copy.deepcopy(case)
        c["walk"] = [["drain"]]
        yield c
    if case["reader"] != "string" and case["main_path"] == "main.f90" and \
            case["include_dirs"] is not None:
        c = copy.deepcopy(case)
        c["reader"] = "string"
        yield c
    if not case["ignore_comments"]:
        c = copy.deepcopy(case)
        c["ignore_comments"] = True
        yield c
    if len(set(case["names"])) < len(case["names"]):
        return  # the same file included twice: structure must stay as it is
    # inline a run back (never the absent one)
    for k in range(len(case["runs"]) - 1, -1, -1):
        nm = case["names"][k]
        if nm in case["absent"] or len(case["runs"]) < 2:
            continue
        if case.get("obs") and case["obs"][0] == nm or case.get("bad_utf8") == nm:
            continue
        c = copy.deepcopy(case)
        parent = c["runs"][k][2]
        del c["runs"][k], c["names"][k], c["inc_fmt"][k]
        c["place"].pop(nm)
        c["fault"].pop(nm, None)
        for r in c["runs"]:
            if r[2] is not None:
                if r[2] == k:
                    r[2] = parent
                elif r[2] > k:
                    r[2] -= 1
        yield materialise(c)
    # drop lines (chunks first)
    n = len(case["lines"])
    chunk = max(1, n // 2)
    while chunk >= 1:
        for start in range(0, n, chunk):
            c = _drop_lines(case, start, min(n, start + chunk))
            if c is not None:
                yield c
        if chunk == 1:
            break
        chunk //= 2


def _drop_lines(case, lo, hi):
    """Remove lines[lo:hi]; returns None if a run would become empty."""
    import copy

    if hi - lo >= len(case["lines"]):
        return None
    c = copy.deepcopy(case)
    cnt = hi - lo
    for r in c["runs"]:
        i, j = r[0], r[1]
        ni = i - max(0, min(cnt, i - lo)) if i > lo else i
        inside = max(0, min(j + 1, hi) - max(i, lo))
        before = max(0, min(i, hi) - lo)
        ni = i - before
        nj = j - before - inside
        if nj < ni:
            return None
        r[0], r[1] = ni, nj
    del c["lines"][lo:hi], c["kinds"][lo:hi], c["labels"][lo:hi]
    if c.get("chunk_nstmts"):
        del c["chunk_nstmts"][lo:hi]
    # nested runs must still lie strictly inside their parents and siblings stay disjoint
    for r in c["runs"]:
        if r[2] is not None:
            p = c["runs"][r[2]]
            if not (p[0] <= r[0] and r[1] <= p[1]) or (p[0] == r[0] and p[1] == r[1]):
                return None
    return materialise(c)

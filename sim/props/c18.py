"""C18 -- parse trees can be deep-copied and pickled faithfully.

System under simulation: a pool of live trees in one interpreter, a "disk" (pickle
bytes in the op log) and restarts (pristine processes that only ever see the bytes,
after a seeded history of their own).  The model is the snapshot table: what every
pool entry printed / looked like when it entered the pool.
"""
import base64
import copy
import os
import pickle
import sys

from ..gen import fgen, layout
from ..kit import forkrun, fp, host, rng

ID = "C18"
hang_is_violation = False

TIERS = {
    "quick": {"budget_s": 70, "corpus": True, "max_ops": 9, "size": (2, 14), "run_timeout": 90.0,
              "determinism_every": 40},
    "thorough": {"budget_s": 900, "corpus": True, "max_ops": 14, "size": (2, 40), "run_timeout": 120.0,
                 "determinism_every": 300, "determinism_max": 200},
}

RULE = ("first, bounded-exhaustively: for every snippet of the corpus (statement zoo + snippets "
        "harvested from fparser's own tests, at least one per grammar rule; 4 per run) parse, "
        "deepcopy, pickle round trip, mutate both copies, one restart-load; then one run = a "
        "seeded operation list over a pool of trees: parse(program with comments / "
        "directives / unresolved INCLUDE / cpp lines, std, comment option, string or file "
        "reader), deepcopy(i), in-process pickle round trip(i), dump(i) to 'disk', "
        "restart_load(bytes, history of the fresh process), mutate(copy j), create(std); after "
        "every operation every pool entry is compared with its snapshot; non-trivial = at least "
        "one copy operation on a tree followed by a comparison; distinct = distinct event-log "
        "digest")
ASSUMPTIONS = [
    "pickle protocols 2-5 and the default are used; protocols 0 and 1 cannot carry "
    "__getnewargs__ (nor an io.StringIO) and are outside what the property states",
    "structure = class names, leaf strings, labels and construct names of every node; text = "
    "str(tree); repr compared with synthetic block:N names renumbered",
    "a C10 defect already present in the original is not charged to the copy",
    "programs the parser rejects yield no tree and are only counted",
]
COMPONENTS = {
    "real": ["fparser.two (tree classes, __new__/__getnewargs__ copy protocol)", "copy.deepcopy",
             "pickle", "fparser.common.readfortran (items referenced by statement nodes)"],
    "stub": ["file system (SimFS) for file readers", "the disk (bytes in the op log)",
             "process restart (pristine forked process with its own history)"],
}
PROBES = ["corpus_tree_copied", "load_in_fresh_interpreter_other_hashseed", "tree_from_resolved_include_copied",
          "mutated_label_or_name_of_copy", "copied_tree_with_Comment", "copied_tree_with_Directive", "copied_tree_with_Include_Stmt",
          "copied_tree_with_Cpp", "load_under_other_std_registry", "load_with_no_parser_created",
          "mutate_then_compare_pool_ge3", "file_reader_tree_copied", "restart_load_done",
          "copy_of_copy"]
STATE_MEASURE = ("distinct (set of node classes in the tree, op-kind sequence prefix, reader kind, "
                 "restart history) tuples")

EXTRA_LINES = ["! plain comment", "!$omp parallel do", "!dir$ ivdep", "include 'missing_a.inc'",
               'include "nofile.h"', "#define FOO 1", "#ifdef FOO", "#endif", "#include \"x.h\"",
               "#if defined(A)", "#else", "#undef FOO", "!", "! it's", "#error stop here",
               "# 12 \"f.f90\"", "#"]


_CORPUS = None
CORPUS_PER_RUN = 4


def _corpus():
    """Snippets harvested from fparser's own tests (at least one per grammar rule), wrapped so
    that each parses on its own: the bounded-exhaustive part of C18 copies a tree of each."""
    global _CORPUS
    if _CORPUS is None:
        import json

        from ..gen import zoo

        out = []
        path = os.path.join(os.path.dirname(zoo.__file__), "zoo_harvest.json")
        if os.path.exists(path):
            with open(path) as fobj:
                harvest = json.load(fobj)
            for ent in harvest.get("exec", []):
                out.append({"std": ent["std"], "text": "subroutine zz(u)\nreal :: x\n" +
                            "\n".join(ent["lines"]) + "\nend subroutine zz\n"})
            for ent in harvest.get("program", []):
                out.append({"std": ent["std"], "text": "\n".join(ent["lines"]) + "\n"})
        for text in zoo.SPEC + zoo.USES:
            if text != "enum, bind(c)":
                out.append({"std": "f2003", "text": "subroutine zz(u)\n" + text +
                            "\nend subroutine zz\n"})
        for grp in zoo.SPEC_GROUPS + zoo.USE_GROUPS:
            out.append({"std": "f2003", "text": "subroutine zz(u)\n" + "\n".join(grp) +
                        "\nend subroutine zz\n"})
        for text in zoo.EXEC + zoo.EXEC_F08:
            out.append({"std": "f2008", "text": "subroutine zz(u)\nreal :: x\n" + text +
                        "\nend subroutine zz\n"})
        for grp in zoo.EXEC_GROUPS + zoo.EXEC_GROUPS_F08:
            out.append({"std": "f2008", "text": "subroutine zz(u)\nreal :: x\n" +
                        "\n".join(grp) + "\nend subroutine zz\n"})
        _CORPUS = out
    return _CORPUS


def corpus_runs():
    return (len(_corpus()) + CORPUS_PER_RUN - 1) // CORPUS_PER_RUN


def _corpus_case(index):
    ents = _corpus()[index * CORPUS_PER_RUN:(index + 1) * CORPUS_PER_RUN]
    programs = {}
    ops = []
    cur = None
    t = 0
    for k, ent in enumerate(ents):
        programs["p%d" % k] = {"text": ent["text"], "std": ent["std"]}
        if ent["std"] != cur:
            ops.append(["create", ent["std"]])
            cur = ent["std"]
        ops.append(["parse", "p%d" % k, "keep", "string"])
        base = t
        ops.append(["deepcopy", base])
        ops.append(["pickle", base, None])
        ops.append(["mutate", base + 1, "rename", 3])
        ops.append(["mutate", base + 2, "relabel", 5])
        t += 3
        if k == 0:
            ops.append(["dump", base, None])
            ops.append(["restart_load", 0, "none", 1])
    return {"prop": ID, "programs": programs, "ops": ops, "corpus_index": index}


def generate(run_seed, cfg):
    if cfg.get("corpus") and cfg.get("index", 0) < corpus_runs():
        return _corpus_case(cfg["index"])
    st = rng.Streams(run_seed)
    sw = st("swarm")
    programs = {}
    nprog = sw.randrange(1, 4)
    for k in range(nprog):
        std = sw.choice(["f2003", "f2008"])
        size = sw.randrange(cfg["size"][0], cfg["size"][1] + 1)
        stmts = fgen.generate(st("workload%d" % k), std, size, max_depth=sw.randrange(1, 4))
        if sw.random() < 0.5:
            text = fgen.simple_text(stmts)
        else:
            text = layout.render_free(stmts, st("layout%d" % k), {
                "max_cuts": sw.choice([0, 1]), "comments": sw.choice([0.1, 0.3]), "semi": 0.05,
                "base_indent": 1, "token_cut": False, "trail": 0.15, "cont_comment": 0.0}).text
        # sprinkle comment / directive / include / cpp lines at physical line boundaries that
        # are not inside a continuation
        lines = text.split("\n")
        out = []
        r = st("extras%d" % k)
        rate = sw.choice([0.0, 0.1, 0.25])
        for i, ln in enumerate(lines):
            prev_cont = i > 0 and lines[i - 1].split("!")[0].rstrip().endswith("&")
            if not prev_cont and r.random() < rate:
                out.append(" " + r.choice(EXTRA_LINES))
            out.append(ln)
        fixed = []
        for ln in out:
            fixed.append(ln.lstrip() if ln.lstrip().startswith("#") else ln)
        prog = {"text": "\n".join(fixed), "std": std}
        if sw.random() < 0.25:
            # move one line that is no continuation into an include file that *does* resolve:
            # the statements of that line then refer to a nested FortranFileReader
            cand = [i for i, ln in enumerate(fixed)
                    if ln.strip() and not ln.lstrip().startswith(("#", "!")) and
                    not ln.split("!")[0].rstrip().endswith("&") and
                    not (i > 0 and fixed[i - 1].split("!")[0].rstrip().endswith("&")) and
                    "include" not in ln.lower()]
            if cand:
                i = cand[sw.randrange(len(cand))]
                prog["inc"] = {"frag_%d.inc" % k: fixed[i] + "\n"}
                fixed2 = list(fixed)
                fixed2[i] = " include 'frag_%d.inc'" % k
                prog["text"] = "\n".join(fixed2)
        programs["p%d" % k] = prog
    ops = []
    ntrees = 0
    ndisk = 0
    cur_std = None
    nops = sw.randrange(3, cfg["max_ops"] + 1)
    for _ in range(nops):
        r = sw.random()
        if ntrees == 0 or r < 0.22:
            key = sw.choice(sorted(programs))
            std = programs[key]["std"]
            if cur_std != std or sw.random() < 0.2:
                ops.append(["create", std])
                cur_std = std
            opt = sw.choice(["drop", "keep", "keep", "directives"])
            kind = sw.choice(["string", "string", "file"])
            ops.append(["parse", key, opt, kind])
            ntrees += 1  # optimistic; failed parses leave holes handled at run time
        elif r < 0.42:
            ops.append(["deepcopy", sw.randrange(ntrees)])
            ntrees += 1
        elif r < 0.58:
            ops.append(["pickle", sw.randrange(ntrees), sw.choice([2, 3, 4, 5, None, None])])
            ntrees += 1
        elif r < 0.70:
            ops.append(["dump", sw.randrange(ntrees), sw.choice([2, 3, 4, 5, None, None])])
            ndisk += 1
        elif r < 0.82 and ndisk:
            ops.append(["restart_load", sw.randrange(ndisk),
                        sw.choice(["none", "create_other", "create_same", "parse_unrelated"] +
                                  (["fresh_interpreter"] if sw.random() < 0.12 else [])),
                        sw.randrange(1, 10000)])
        elif r < 0.95:
            ops.append(["mutate", sw.randrange(ntrees),
                        sw.choice(["rename", "delete_stmt", "swap_children", "append_stmt",
                                   "relabel", "rename_construct", "edit_comment", "relabel",
                                   "rename_construct"]),
                        sw.randrange(1000)])
        else:
            ops.append(["create", sw.choice(["f2003", "f2008"])])
            cur_std = ops[-1][1]
    return {"prop": ID, "programs": programs, "ops": ops}


def sample_view(case):
    return {"ops": case["ops"],
            "programs": {k: {"std": v["std"], "text": v["text"][:500]}
                         for k, v in case["programs"].items()}}


# --------------------------------------------------------------------------- execution
OPTS = {"drop": {"ignore_comments": True}, "keep": {"ignore_comments": False},
        "directives": {"ignore_comments": False, "process_directives": True}}


def snapshot(tree):
    return {"str": str(tree), "repr": fp.renumber_blocks(repr(tree)),
            "structure": fp.structure_hash(tree)}


def _norm_msg(msg):
    import re

    return re.sub(r"\d+", "N", re.sub(r"0x[0-9a-f]+", "0xN", str(msg)))[:70]


def _restart_child(req):
    """Runs in a pristine process: its own history, then loads the bytes."""
    host.install_log_counter()
    history = req["history"]
    std = req["std"]
    other = "f2008" if std == "f2003" else "f2003"
    if history == "create_other":
        fp.create(other)
    elif history == "create_same":
        fp.create(std)
    elif history == "parse_unrelated":
        parser = fp.create(other)
        fp.parse_with(parser, fp.make_reader(
            "string", "module unrelated\ninteger :: sin\ncontains\nsubroutine s()\n"
            "x = sin(1)\nend subroutine s\nend module unrelated\n", {}))
    try:
        tree = pickle.loads(base64.b64decode(req["data"]))
    except BaseException as err:  # noqa: B902
        return {"raised": [type(err).__name__, host.innermost_fparser_frame(sys.exc_info()[2]),
                           _norm_msg(err)]}
    try:
        snap = snapshot(tree)
    except BaseException as err:  # noqa: B902
        return {"print_raised": [type(err).__name__,
                                 host.innermost_fparser_frame(sys.exc_info()[2]), _norm_msg(err)]}
    return {"snap": snap, "wellformed": fp.wellformed(tree)}


def _fresh_interpreter_load(data, hashseed):
    """loads() in a new interpreter under another PYTHONHASHSEED: nothing but the bytes and
    the code is shared with the process that produced them."""
    import json
    import subprocess

    from ..kit import target

    code = ("import sys, json, base64; sys.path.insert(0, '/verif'); "
            "from sim.kit import target; target.load(); "
            "from sim.props import c18; "
            "req = json.loads(sys.stdin.read()); "
            "print('RESULT ' + json.dumps(c18._restart_child(req)))")
    env = dict(os.environ, PYTHONHASHSEED=str(hashseed), VERIF_REPO_SRC=target.repo_src())
    proc = subprocess.run([sys.executable, "-c", code], input=json.dumps(
        {"data": base64.b64encode(data).decode(), "history": "none", "std": "f2003"}),
        capture_output=True, text=True, env=env, timeout=120, cwd="/verif")
    line = [ln for ln in proc.stdout.split("\n") if ln.startswith("RESULT ")]
    if not line:
        return {"status": forkrun.STATUS_CRASH, "error": proc.stderr[-500:]}
    return {"status": forkrun.STATUS_OK, "value": json.loads(line[0][7:])}


def execute(case):
    stats = host.new_stats()
    events = []
    violations = []
    state_keys = set()

    def probe(name, n=1):
        stats["probes"][name] = stats["probes"].get(name, 0) + n

    def violate(clause, site, detail):
        violations.append({"clause": clause, "site": site, "detail": detail})

    if "corpus_index" in case:
        probe("corpus_tree_copied", len(case["programs"]))
    server = forkrun.PristineServer(_restart_child, timeout=60.0)  # while still pristine
    image = {"%s.f90" % k: v["text"].encode("utf-8") for k, v in case["programs"].items()}
    for v in case["programs"].values():
        for nm, frag in (v.get("inc") or {}).items():
            image[nm] = frag.encode("utf-8")
    fs = host.SimFS(image, {}, stats).install("c18-%d" % os.getpid())
    host.install_log_counter()
    pool = []   # entries: dict(tree, snap, ids, wf, origin, kind, std, classes) or None (hole)
    disk = []   # (bytes or None, source entry index, std)
    parser = None
    cur_std = None
    copies_compared = 0
    seq = []

    def classes_probe(entry):
        cl = entry["classes"]
        if "Comment" in cl:
            probe("copied_tree_with_Comment")
        if "Directive" in cl:
            probe("copied_tree_with_Directive")
        if "Include_Stmt" in cl:
            probe("copied_tree_with_Include_Stmt")
        if any(c.startswith("Cpp_") for c in cl):
            probe("copied_tree_with_Cpp")
        if entry["kind"] == "file":
            probe("file_reader_tree_copied")
        if entry.get("has_inc"):
            probe("tree_from_resolved_include_copied")
        if entry["origin"] != "parse":
            probe("copy_of_copy")

    def check_pool(after_op, skip=None):
        for idx, ent in enumerate(pool):
            if ent is None or idx == skip:
                continue
            try:
                now = snapshot(ent["tree"])
            except BaseException as err:  # noqa: B902
                violate("C18.d pool-entry-no-longer-prints", type(err).__name__,
                        {"entry": idx, "after": after_op})
                continue
            if now != ent["snap"]:
                what = [k for k in ("str", "repr", "structure") if now[k] != ent["snap"][k]]
                violate("C18.d other-entry-changed", "%s/%s" % (after_op[0], ",".join(what)),
                        {"entry": idx, "after": after_op})
                ent["snap"] = now  # report once

    def add_copy(src_idx, tree, how, op):
        nonlocal copies_compared
        src = pool[src_idx]
        try:
            snap = snapshot(tree)
        except BaseException as err:  # noqa: B902
            violate("C18.b copy-does-not-print", "%s/%s@%s" % (
                how, type(err).__name__, host.innermost_fparser_frame(sys.exc_info()[2])),
                {"op": op})
            pool.append(None)
            return
        copies_compared += 1
        if snap != src["snap"]:
            what = [k for k in ("str", "repr", "structure") if snap[k] != src["snap"][k]]
            violate("C18.b copy-differs-from-original", "%s/%s" % (how, ",".join(what)),
                    {"op": op, "classes": src["classes"][:12],
                     "orig": src["snap"]["str"][:300], "copy": snap["str"][:300]})
        ids = fp.node_ids(tree)
        if ids & src["ids"]:
            violate("C18.c copy-shares-nodes-with-original", how,
                    {"op": op, "shared": len(ids & src["ids"])})
        wf = fp.wellformed(tree)
        extra = [w for w in wf if w not in src["wf"]]
        if extra:
            violate("C18.e copy-not-well-formed", "%s/%s" % (how, ",".join(extra)), {"op": op})
        pool.append({"tree": tree, "snap": snap, "ids": ids, "wf": wf, "origin": how,
                     "kind": src["kind"], "std": src["std"], "classes": src["classes"],
                     "has_inc": src.get("has_inc")})

    try:
        for k, op in enumerate(case["ops"]):
            seq.append(op[0])
            if op[0] == "create":
                parser = fp.create(op[1])
                cur_std = op[1]
                events.append(["create", op[1]])
            elif op[0] == "parse":
                prog = case["programs"][op[1]]
                source = prog["text"] if op[3] == "string" else "%s.f90" % op[1]
                reader = fp.make_reader(op[3], source, OPTS[op[2]], fs=fs, stats=stats)
                outcome, tree, _ = fp.parse_with(parser, reader, want_tree=True)
                events.append(["parse", op[1], op[2], op[3], fp.outcome_digest(outcome)])
                if outcome[0] != "ok":
                    pool.append(None)
                    stats.setdefault("counters", {})["parse_rejected"] = \
                        stats.setdefault("counters", {}).get("parse_rejected", 0) + 1
                    continue
                pool.append({"tree": tree, "snap": snapshot(tree), "ids": fp.node_ids(tree),
                             "wf": fp.wellformed(tree), "origin": "parse", "kind": op[3],
                             "std": cur_std, "classes": fp.node_classes(tree),
                             "has_inc": bool(prog.get("inc"))})
                state_keys.add(("classes", tuple(pool[-1]["classes"][:40]), op[3]))
                for cname in pool[-1]["classes"]:
                    state_keys.add(("class", cname))
            elif op[0] in ("deepcopy", "pickle"):
                idx = op[1]
                if idx >= len(pool) or pool[idx] is None:
                    pool.append(None)
                    events.append([op[0], idx, "hole"])
                    continue
                classes_probe(pool[idx])
                try:
                    if op[0] == "deepcopy":
                        new = copy.deepcopy(pool[idx]["tree"])
                    else:
                        proto = op[2] if len(op) > 2 else None
                        new = pickle.loads(pickle.dumps(pool[idx]["tree"], protocol=proto))
                except BaseException as err:  # noqa: B902
                    if isinstance(err, (KeyboardInterrupt, MemoryError)):
                        raise
                    site = "%s@%s/%s" % (type(err).__name__,
                                         host.innermost_fparser_frame(sys.exc_info()[2]),
                                         _norm_msg(err))
                    violate("C18.a %s-raises" % op[0], site,
                            {"op": op, "reader": pool[idx]["kind"],
                             "classes": pool[idx]["classes"][:15]})
                    events.append([op[0], idx, "raised", site])
                    pool.append(None)
                    continue
                add_copy(idx, new, op[0], op)
                events.append([op[0], idx, pool[-1]["snap"]["structure"] if pool[-1] else None])
            elif op[0] == "dump":
                idx = op[1]
                if idx >= len(pool) or pool[idx] is None:
                    disk.append((None, idx, None, None, None))
                    continue
                classes_probe(pool[idx])
                try:
                    data = pickle.dumps(pool[idx]["tree"],
                                        protocol=op[2] if len(op) > 2 else None)
                    disk.append((data, idx, pool[idx]["std"], dict(pool[idx]["snap"]),
                                 list(pool[idx]["wf"])))
                    events.append(["dump", idx, len(data) > 0])
                except BaseException as err:  # noqa: B902
                    site = "%s@%s/%s" % (type(err).__name__,
                                         host.innermost_fparser_frame(sys.exc_info()[2]),
                                         _norm_msg(err))
                    violate("C18.a pickle-raises", site, {"op": op, "reader": pool[idx]["kind"],
                                                          "classes": pool[idx]["classes"][:15]})
                    disk.append((None, idx, None, None, None))
                    events.append(["dump", idx, "raised", site])
            elif op[0] == "restart_load":
                if op[1] >= len(disk) or disk[op[1]][0] is None:
                    continue
                data, src_idx, std, snap_at_dump, wf_at_dump = disk[op[1]]
                if op[2] == "fresh_interpreter":
                    probe("load_in_fresh_interpreter_other_hashseed")
                    doc = _fresh_interpreter_load(data, op[3] if len(op) > 3 else 1)
                else:
                    doc = server.call({"data": base64.b64encode(data).decode(), "history": op[2],
                                       "std": std or "f2003"})
                probe("restart_load_done")
                if op[2] == "none":
                    probe("load_with_no_parser_created")
                if op[2] in ("create_other", "parse_unrelated"):
                    probe("load_under_other_std_registry")
                state_keys.add(("restart", op[2]))
                if doc.get("status") != forkrun.STATUS_OK:
                    events.append(["restart_load", op[1], op[2], "harness:" + str(doc.get("status"))])
                    raise RuntimeError("restart helper failed: %s" % doc)
                val = doc["value"]
                if "raised" in val:
                    violate("C18.a restart-load-raises", "%s@%s/%s" % tuple(val["raised"]),
                            {"op": op})
                elif "print_raised" in val:
                    violate("C18.b copy-does-not-print", "restart/%s@%s" % tuple(
                        val["print_raised"][:2]), {"op": op})
                else:
                    copies_compared += 1
                    # compare with the snapshot taken when the bytes were written
                    want = snap_at_dump
                    if val["snap"] != want:
                        what = [x for x in ("str", "repr", "structure") if val["snap"][x] != want[x]]
                        violate("C18.b copy-differs-from-original",
                                "restart:%s/%s" % (op[2], ",".join(what)), {"op": op})
                    extra = [w for w in val["wellformed"] if w not in wf_at_dump]
                    if extra:
                        violate("C18.e copy-not-well-formed", "restart/%s" % ",".join(extra),
                                {"op": op})
                events.append(["restart_load", op[1], op[2], val.get("snap", {}).get("structure")])
            elif op[0] == "mutate":
                idx = op[1]
                if idx >= len(pool) or pool[idx] is None or pool[idx]["origin"] == "parse":
                    continue  # only copies are mutated
                done = _mutate(pool[idx]["tree"], op[2], op[3])
                events.append(["mutate", idx, op[2], done])
                if done:
                    if op[2] in ("relabel", "rename_construct"):
                        probe("mutated_label_or_name_of_copy")
                    if sum(1 for e in pool if e) >= 3:
                        probe("mutate_then_compare_pool_ge3")
                    try:
                        pool[idx]["snap"] = snapshot(pool[idx]["tree"])
                        pool[idx]["ids"] = fp.node_ids(pool[idx]["tree"])
                        pool[idx]["wf"] = fp.wellformed(pool[idx]["tree"])
                        pool[idx]["classes"] = fp.node_classes(pool[idx]["tree"])
                    except BaseException:  # noqa: B902 - a mutated copy may not print; fine
                        pool[idx] = None
                    check_pool(op, skip=idx)
                continue
            check_pool(op)
        state_keys.add(("seq",) + tuple(seq[:7]))
        stats["logical"]["ops"] = len(case["ops"])
        return {"events": events, "violations": violations, "stats": stats,
                "nontrivial": copies_compared > 0,
                "state_keys": [list(map(str, s)) for s in sorted(state_keys, key=str)],
                "discarded": None}
    finally:
        server.close()
        fs.uninstall()


def _mutate(tree, how, salt):
    from fparser.two.Fortran2003 import Name
    from fparser.two.utils import BlockBase, walk

    if how == "rename":
        names = walk(tree, Name)
        if not names:
            return False
        names[salt % len(names)].string = "renamed_%d" % (salt % 7)
        return True
    if how in ("relabel", "rename_construct"):
        # the label / construct name a statement prints lives on its reader item: a copy
        # that shares items with its original would change the original here
        from fparser.two.utils import StmtBase

        attr = "label" if how == "relabel" else "name"
        stmts = [n for n in walk(tree, StmtBase)
                 if getattr(getattr(n, "item", None), attr, None) is not None]
        if not stmts:
            return False
        item = stmts[salt % len(stmts)].item
        if how == "relabel":
            item.label = 9000 + salt % 97
        else:
            item.name = "rn%d" % (salt % 97)
        return True
    if how == "edit_comment":
        from fparser.two.Fortran2003 import Comment

        comments = [c for c in walk(tree, Comment) if c.items and c.items[0]]
        if not comments:
            return False
        comments[salt % len(comments)].items[0] = "! edited %d" % salt
        return True
    blocks = [b for b in walk(tree, BlockBase) if getattr(b, "content", None)
              and len(b.content) >= 3]
    if not blocks:
        return False
    blk = blocks[salt % len(blocks)]
    if how == "delete_stmt":
        del blk.content[1 + salt % (len(blk.content) - 2)]
        return True
    if how == "swap_children" and len(blk.content) >= 4:
        i = 1 + salt % (len(blk.content) - 3)
        blk.content[i], blk.content[i + 1] = blk.content[i + 1], blk.content[i]
        return True
    if how == "append_stmt":
        blk.content.insert(len(blk.content) - 1, blk.content[1])
        return True
    return False


# --------------------------------------------------------------------------- shrinking
def shrink_candidates(case):
    import copy as _copy

    ops = case["ops"]
    for k in range(len(ops) - 1, -1, -1):
        if ops[k][0] in ("parse", "deepcopy", "pickle"):
            continue  # these define pool indices; dropping one renumbers the rest
        c = _copy.deepcopy(case)
        del c["ops"][k]
        yield c
    # truncate after each prefix
    for k in range(1, len(ops)):
        c = _copy.deepcopy(case)
        c["ops"] = ops[:k]
        yield c
    for k, op in enumerate(ops):
        if op[0] == "parse" and (op[2] != "drop" or op[3] != "string"):
            for new in (["parse", op[1], "drop", op[3]], ["parse", op[1], op[2], "string"]):
                if new != op:
                    c = _copy.deepcopy(case)
                    c["ops"][k] = new
                    yield c
    for key in sorted(case["programs"]):
        lines = case["programs"][key]["text"].split("\n")
        n = len(lines)
        chunk = max(1, n // 2)
        while chunk >= 1:
            for start in range(0, n, chunk):
                if n - chunk < 1:
                    continue
                c = _copy.deepcopy(case)
                c["programs"][key]["text"] = "\n".join(lines[:start] + lines[start + chunk:])
                yield c
            if chunk == 1:
                break
            chunk //= 2

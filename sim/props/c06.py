"""C06 -- parsing ends in a tree or a FortranSyntaxError, for any input.

System under simulation: source file(s) on a simulated file system -> real reader
(string / path / file-like over a simulated raw stream) -> real parser -> str/repr;
plus the real CLI entry fparser.scripts.fparser2.runner over a batch of files.
Faults: stored-byte corruption, torn tails, lost/duplicated/swapped lines, token
damage, unstructured text, short reads that split multi-byte sequences, EIO on the
first or second open, non-seekable file objects.
"""
import io
import os
import re
import sys
import types

from .. import ref
from ..gen import damage, fgen, layout
from ..kit import fp, host, rng

ID = "C06"
hang_is_violation = True

TIERS = {
    "quick": {"budget_s": 75, "size": (3, 28), "max_mut": 3, "run_timeout": 60.0,
              "determinism_every": 40},
    "thorough": {"budget_s": 1200, "size": (3, 70), "max_mut": 3, "run_timeout": 90.0,
                 "determinism_every": 300, "determinism_max": 200},
}

RULE = ("two thirds of the runs: one run = one swarm configuration (standard, reader kind, comment/directive options, "
        "enabled fault kinds) + one valid generated program rendered in free or fixed form + "
        "1-3 seeded faults placed in the bytes that are parsed (token/structural/line/byte "
        "damage, torn tail, or unstructured text; short reads / EIO on open 1 or 2 / "
        "non-seekable stream for file readers), or a CLI batch of 2-5 files with some damaged, "
        "or a fault-free differential run; one third of the runs (focused mode): one statement or "
        "construct of the statement zoo in a minimal subprogram with one single-token fault "
        "(delete / duplicate / duplicate a pair / swap / split / cut / replace by punctuation or "
        "keyword), enumerated evenly "
        "over all statements in a per-seed order (second-order faults once the single ones are "
        "exhausted); non-trivial = at least one fault actually changed the "
        "bytes or a read; distinct = distinct event-log digest")
ASSUMPTIONS = [
    "a FortranSyntaxError or a returned tree whose str()/repr() succeed are the only "
    "acceptable ends; under an injected EIO the reader constructor may raise OSError and the "
    "injected exception object itself may escape the parse -- nothing else is relaxed",
    "the step budget (200000 + 20000 x physical lines rule constructions, where lines re-served "
    "by the simulated file system through recursive INCLUDEs count as input) and the wall "
    "watchdog are the 'generous time bound'; an overrun in a source with 5 or more IF/WHERE "
    "constructs open at once is the known exponential case (K5), any other overrun is reported",
    "string readers receive the bytes decoded with errors='replace' (a str cannot hold invalid "
    "UTF-8); file readers receive the raw bytes",
]
COMPONENTS = {
    "real": ["fparser.two (parser, all rules)", "fparser.common.readfortran / sourceinfo",
             "fparser.scripts.fparser2.runner", "fparser-logging codec error handler",
             "CPython io / codecs"],
    "stub": ["file system (SimFS)", "raw byte stream (SimRaw)", "process exit (SystemExit trap)",
             "time (step clock on Base.__new__ + wall watchdog)"],
}
PROBES = ["deep_nest_with_damaged_closer", "file_changed_between_opens", "include_dimension", "focused_single_token_fault", "table_driven_intrinsic_reference", "decode_handler_fired", "short_read_split_multibyte", "trunc_inside_literal",
          "trunc_inside_continuation", "trunc_inside_directive", "system_exit_trapped",
          "eio_on_second_open", "eio_on_first_open", "cli_damaged_first", "cli_damaged_middle",
          "cli_damaged_last", "outcome_tree", "outcome_syntax", "faultfree_compared"]
STATE_MEASURE = ("distinct (mode, fault-kind set, reader kind, options, outcome class, raising "
                 "site of the FortranSyntaxError / escape) tuples")


def _l1(data):
    return data.decode("latin-1")


def _omp_prelude(sw, text, fixed):
    """Conditional-compilation lines before the first statement (the family of F6)."""
    k = sw.randrange(1, 4)
    body = sw.choice(["x = 2", "continue", "integer :: omp_v", "end", "program omp_p"])
    lines = []
    for _ in range(k):
        if fixed:
            lines.append(sw.choice(["!$", "c$", "C$", "*$"]) + "    " + body)
        else:
            lines.append(sw.choice(["!$ ", " !$ ", "   !$ "]) + body)
    return "\n".join(lines) + "\n" + text


def _gen_program(st, sw, std, cfg, tag):
    size = sw.randrange(cfg["size"][0], cfg["size"][1] + 1)
    stmts = fgen.generate(st("workload" + tag), std, size, max_depth=sw.randrange(1, 4))
    form = sw.random()
    lay = st("layout" + tag)
    if form < 0.55:
        rend = layout.render_free(stmts, lay, {
            "max_cuts": sw.choice([0, 1, 2]), "comments": sw.choice([0, 0.1, 0.25]),
            "semi": sw.choice([0, 0.1]), "lead_amp": sw.choice([0.0, 0.5, 1.0]),
            "cpp": sw.choice([0, 0, 0.1]), "base_indent": 1, "token_cut": False,
            "trail": sw.choice([0, 0.15])})
        text = rend.text
    elif form < 0.75:
        rend = layout.render_fixed(stmts, lay, {"wrap": 72, "max_cuts": sw.choice([0, 1]),
                                               "comments": sw.choice([0, 0.2])})
        text = rend.text
    else:
        text = fgen.simple_text(stmts)
    if cfg.get("omp") and sw.random() < 0.5:
        text = _omp_prelude(sw, text, 0.55 <= form < 0.75)
    if sw.random() < 0.15:
        # non-ASCII but valid UTF-8 inside a comment and a literal
        text = text.replace("\n", "  ! café €\n", 1)
        text = text.replace("'abc'", "'abç'")
    return text


def _damage(st, sw, text, cfg, stats_features):
    r = st("faults")
    data = text.encode("utf-8")
    classes = sw.sample(["token", "struct", "line", "byte", "trunc", "cols"], sw.randrange(1, 4))
    muts = []
    for _ in range(sw.randrange(1, cfg["max_mut"] + 1)):
        cur_text = data.decode("utf-8", "surrogateescape")
        m = damage.gen_mutation(r, cur_text, classes=classes)
        if m["kind"] == "truncate":
            m["where"] = damage.describe_position(data, m["at"])
        new = damage.apply_mutation(data, m)
        m["changed"] = new != data
        data = new
        muts.append(m)
    return data, muts


# ---- focused mode: single statements, single-token faults, enumerated -----------------
_FOCUS = None
_FOCUS_OPS = ["delete", "duplicate", "duplicate2", "swap_next", "split", "head1", "drop_last", "punct::", "punct:,", "punct:(", "punct:)",
              "punct:=", "punct:'", "keyword:end"]


def _focus_sources():
    """(std, where, [statement lines]) for every zoo entry: the unit a focused run damages."""
    global _FOCUS
    if _FOCUS is None:
        from ..gen import zoo

        out = []
        for text in zoo.SPEC + zoo.USES:
            if text != "enum, bind(c)":
                out.append(("f2003", "spec", [text]))
        for text in zoo.SPEC_F08:
            out.append(("f2008", "spec", [text]))
        for grp in zoo.SPEC_GROUPS + zoo.USE_GROUPS:
            out.append(("f2003", "spec", list(grp)))
        for text in zoo.EXEC:
            out.append(("f2003", "exec", [text]))
        for text in zoo.EXEC_F08:
            out.append(("f2008", "exec", [text]))
        for grp in zoo.EXEC_GROUPS:
            out.append(("f2003", "exec", list(grp)))
        for grp in zoo.EXEC_GROUPS_F08:
            out.append(("f2008", "exec", list(grp)))
        # snippets harvested once from the string literals of fparser's own unit tests (those
        # the parser accepts): one or more per grammar rule
        import json as _json

        hpath = os.path.join(os.path.dirname(zoo.__file__), "zoo_harvest.json")
        if os.path.exists(hpath):
            with open(hpath) as fobj:
                harvest = _json.load(fobj)
            for ent in harvest.get("exec", []):
                out.append((ent["std"], "exec", ent["lines"]))
            for ent in harvest.get("program", []):
                out.append((ent["std"], "program", ent["lines"]))
        _FOCUS = out
    return _FOCUS


FOCUS_BATCH = 24


def _focused_batch(run_seed, cfg, case):
    """One focused run = FOCUS_BATCH consecutive (statement, fault) pairs of the enumeration,
    each parsed on its own (create() first) in the same run child."""
    fidx = cfg.get("index", 0) // 3  # every third run is a focused one
    batch = []
    for sub in range(FOCUS_BATCH):
        one = _focused_case(rng.derive_int(run_seed, "sub", sub),
                            dict(cfg, index=fidx * FOCUS_BATCH + sub), {})
        batch.append({"std": one["std"], "text": one["files"]["main.f90"],
                      "mutations": one["mutations"]})
    case.update({"mode": "focus_batch", "batch": batch, "std": "mixed", "opts": {},
                 "mutations": []})
    return case


def _focused_case(run_seed, cfg, case):
    """Statement number = run index mod #statements; mutation number = run index div
    #statements, taken from a per-batch-seed shuffle of all (token, op) pairs of that
    statement, so that a batch enumerates single-token faults evenly over all statements
    and different VERIF_SEEDs start the enumeration at different places."""
    src = _focus_sources()
    idx = cfg.get("index", 0)
    k = idx % len(src)
    m = idx // len(src)
    std, where, lines = src[k]
    r = rng.derive(cfg.get("batch_seed", 0), "focus-order", k)
    if rng.derive(run_seed, "focus-std").random() < 0.4:
        std = "f2008"
    head = {"spec": "subroutine zz(u)\n", "exec": "subroutine zz(u)\nreal :: x\n",
            "program": ""}[where]
    tail = "" if where == "program" else "\nend subroutine zz\n"
    body = "\n".join(lines)
    toks = damage.tokenize(body)
    sig = [i for i, t in enumerate(toks) if t.strip() and t != "\n"]
    pairs = [(i, op) for i in sig for op in _FOCUS_OPS]
    r.shuffle(pairs)
    muts = []
    chosen = [pairs[m % len(pairs)]]
    if m >= len(pairs):
        # the single faults of this statement are exhausted: second-order faults
        r2 = rng.derive(run_seed, "focus-second")
        chosen.append(pairs[r2.randrange(len(pairs))])
    new = list(toks)
    for i, op in sorted(set(chosen), reverse=True):
        if i >= len(new):
            continue
        if op == "delete":
            del new[i]
        elif op == "duplicate":
            new.insert(i, new[i])
        elif op == "duplicate2":
            # this token and the next one, repeated as a pair ('nm: nm: do ...')
            j = next((x for x in sig if x > i), None)
            if j is not None and j < len(new):
                new[i:i] = new[i:j + 1] + [" "]
        elif op == "split":
            if len(new[i]) >= 2:
                cut = 1 + (i + len(new[i])) % (len(new[i]) - 1)
                new[i] = new[i][:cut] + " " + new[i][cut:]
        elif op == "head1":
            new[i] = new[i][:1]          # the token cut down to its first character
        elif op == "drop_last":
            new[i] = new[i][:-1]         # the token without its last character
        elif op == "swap_next":
            j = next((x for x in sig if x > i), None)
            if j is not None and j < len(new):
                new[i], new[j] = new[j], new[i]
        else:
            new[i] = op.split(":", 1)[1]
        muts.append({"kind": "focus_" + op.split(":")[0], "token": i, "changed": True})
    text = head + "".join(new) + (tail or "\n")
    if rng.derive(run_seed, "focus-form").random() < 0.25:
        # the same damaged statement in fixed source form (statement field from column 7)
        text = "".join("      " + ln + "\n" for ln in text.split("\n") if ln)
        muts.append({"kind": "fixed_form", "changed": False})
    case.update({"std": std, "mode": "parse", "reader": "string", "focused": True,
                 "files": {"main.f90": _l1(text.encode("utf-8"))}, "faults": {},
                 "mutations": muts, "opts": {"ignore_comments": True}})
    return case


# The parser's work on a syntax error grows about threefold with every IF (or WHERE) construct
# that encloses the failing statement (known finding K5); every other construct adds a constant.
EXP_NEST_KNOWN = 5


def exp_nesting(text):
    """Upper bound on the number of IF/WHERE constructs open at once in a source text, as the
    parser can see them.  Deliberately generous (a statement that merely ends in THEN opens a
    level, only an exact END IF / END WHERE closes one, blanks are ignored as in fixed form):
    it is used only to tell the known exponential case apart from other time-outs, so erring
    upwards can hide a change but can never raise an alarm on unchanged code."""
    stack = []
    deepest = 0
    for line in text.split("\n"):
        for seg in line.split(";"):
            s = re.sub(r"\s+", "", seg.lower())
            if not s:
                continue
            m = re.match(r"^\d*end(if|where)\w*(!.*)?$", s)
            if m:
                if stack and stack[-1] == m.group(1):
                    stack.pop()
                continue
            if re.search(r"then(!.*)?$", s) and not re.match(r"^\d*else", s):
                stack.append("if")
            elif re.match(r"^\d*(\w+:)?where\(.*\)(!.*)?$", s):
                stack.append("where")
            deepest = max(deepest, len(stack))
    return deepest


def budget_site(texts, default):
    """Site of a step-budget violation: the known exponential case is named by what identifies
    it (EXP_NEST_KNOWN or more IF/WHERE constructs open at once); anything else keeps
    ``default`` and is reported."""
    depths = [exp_nesting(t) for t in texts]
    depth = depths[0] + max(depths[1:] or [0])     # an included file is inlined anywhere
    if depth >= EXP_NEST_KNOWN:
        return "if-or-where-constructs-nested-%d-deep-or-more" % EXP_NEST_KNOWN, depth
    return default, depth


def _nest_case(sw, case):
    """Deep nests of loops and IF constructs whose innermost closer is damaged: the parser's
    backtracking must stay within the time bound (no exponential retry of enclosing rules)."""
    depth = sw.randrange(3, 6)
    nif = sw.randrange(0, 4)
    guard = sw.random() < 0.6     # IF constructs enclose the inner loop (else: siblings before it)
    kind = sw.choice(["labelled", "labelled", "labelled", "shared", "block", "named", "mixed"])
    head = ["program nest", "integer :: i1, i2, i3, i4, i5", "real :: a(10), x"]
    opening = []
    closing = []   # closers in the order they must appear after the innermost body
    ind = ""
    innermost_loop_closer = None
    for d in range(1, depth + 1):
        k = kind if kind != "mixed" else sw.choice(["labelled", "block", "named"])
        lab = 10 * d if k != "shared" else 99
        if k in ("labelled", "shared"):
            opening.append(ind + "do %d i%d = 1, 3" % (lab, d))
            closer = "%d continue" % lab if (k != "shared" or d == 1) else None
        elif k == "named":
            opening.append(ind + "lp%d: do i%d = 1, 3" % (d, d))
            closer = "end do lp%d" % d
        else:
            opening.append(ind + "do i%d = 1, 3" % d)
            closer = "end do"
        ind += " "
        level_closers = []
        for j in range(nif):
            opening.append(ind + "if (x > %d.0) then" % j)
            if guard:
                ind += " "
                level_closers.append("end if")
            else:
                opening.append(ind + " x = x + %d.0" % d)
                opening.append(ind + "end if")
        # closers of this level come after everything nested inside it
        closing.append((level_closers, closer))
        if closer is not None:
            innermost_loop_closer = closer
    lines = head + opening + [ind + "a(1) = x"]
    body_end = len(lines)
    closer_lines = []
    for level_closers, closer in reversed(closing):
        closer_lines.extend(level_closers)
        if closer is not None:
            closer_lines.append(closer)
    lines += closer_lines + ["end program nest"]
    how = sw.choice(["label_char", "label_char", "delete_closer", "truncate", "delete_if_end",
                     "none"])
    muts = [{"kind": "nest_" + how, "changed": how != "none", "depth": depth, "ifs": nif,
             "loops": kind, "guard": guard}]
    if how == "label_char" and innermost_loop_closer is not None:
        k = lines.index(innermost_loop_closer, body_end)
        ln = lines[k]
        lines[k] = ln[:1] + ln[2:] if ln[:2].isdigit() else ln + "x"   # '40 continue' -> '4 continue'
    elif how == "delete_closer" and closer_lines:
        del lines[body_end + sw.randrange(len(closer_lines))]
    elif how == "truncate":
        lines = lines[: sw.randrange(4, len(lines))]
    elif how == "delete_if_end":
        cand = [k for k, ln in enumerate(lines) if ln.strip() == "end if"]
        if cand:
            del lines[sw.choice(cand)]
    text = "\n".join(lines) + "\n"
    case.update({"mode": "parse", "reader": "string", "std": sw.choice(["f2003", "f2008"]),
                 "opts": {"ignore_comments": True}, "files": {"main.f90": _l1(text.encode())},
                 "faults": {}, "mutations": muts})
    return case


TABLE_NAMES_PER_RUN = 8


def _table_names():
    """Every intrinsic name in the tables of the parser under test (both standards), read from
    the classes without creating a parser: a name added to one table but not to the table it
    refers to only shows when that very name is parsed."""
    names = set()
    try:
        from fparser.two.Fortran2003 import Intrinsic_Name as I03
        names.update(I03.function_names)
    except Exception:  # pragma: no cover - layout of the tree under test changed
        pass
    try:
        from fparser.two.Fortran2008.intrinsics_f08 import Intrinsic_Name as I08
        names.update(I08.function_names)
    except Exception:  # pragma: no cover
        pass
    return sorted(n.lower() for n in names)


def _table_batch(cfg, case):
    """One table-driven run: TABLE_NAMES_PER_RUN names of the enumeration, each referenced with
    0..4 arguments under both standards, undamaged (executed like a focused batch)."""
    names = _table_names()
    k = cfg.get("index", 0) // 30
    start = (cfg.get("batch_seed", 0) * 7 + k * TABLE_NAMES_PER_RUN) % max(1, len(names))
    batch = []
    for j in range(TABLE_NAMES_PER_RUN):
        if not names:
            break
        name = names[(start + j) % len(names)]
        for argc in range(5):
            args = ", ".join(["a", "b", "1", "x"][:argc])
            text = ("subroutine zz(u)\nreal :: x\nx = %s(%s)\nend subroutine zz\n" % (name, args))
            for std in ("f2003", "f2008"):
                batch.append({"std": std, "text": _l1(text.encode("utf-8")),
                              "mutations": [{"kind": "table_intrinsic_name", "changed": False,
                                             "name": name, "argc": argc}]})
    case.update({"mode": "focus_batch", "batch": batch, "std": "mixed", "opts": {},
                 "mutations": [], "table_driven": True})
    return case


def generate(run_seed, cfg):
    st = rng.Streams(run_seed)
    sw = st("swarm")
    if cfg.get("index", 0) % 3 == 2:
        return _focused_batch(run_seed, cfg, {"prop": ID})
    if cfg.get("index", 0) % 30 == 13:
        return _table_batch(cfg, {"prop": ID})
    if cfg.get("index", 0) % 30 == 7:
        return _nest_case(sw, {"prop": ID})
    std = sw.choice(["f2003", "f2008"])
    opts = {"ignore_comments": sw.random() < 0.5}
    if sw.random() < 0.25:
        opts["process_directives"] = True
    if sw.random() < 0.15:
        opts["include_omp_conditional_lines"] = True
        cfg = dict(cfg, omp=True)
    mode = sw.random()
    case = {"prop": ID, "std": std, "opts": opts}
    if mode < 0.12:
        # ---- CLI batch
        n = sw.randrange(2, 6)
        names = ["a.f90", "b.f90", "c.f90", "d.f90", "e.f90"][:n]
        files = {}
        damaged = []
        muts_all = {}
        for k, nm in enumerate(names):
            text = _gen_program(st, sw, std, dict(cfg, size=(3, 14)), str(k))
            if sw.random() < 0.45:
                data, muts = _damage(st, sw, text, cfg, None)
                damaged.append(nm)
                muts_all[nm] = muts
            else:
                data = text.encode("utf-8")
            files[nm] = _l1(data)
        if not damaged:
            nm = names[sw.randrange(n)]
            data, muts = _damage(st, sw, files[nm].encode("latin-1").decode("utf-8"), cfg, None)
            files[nm] = _l1(data)
            damaged.append(nm)
            muts_all[nm] = muts
        case.update({"mode": "cli", "files": files, "order": names, "damaged": sorted(damaged),
                     "mutations": muts_all, "task": sw.choice(["show", "show", "repr"])})
        return case
    text = _gen_program(st, sw, std, cfg, "")
    kind = sw.choice(["string", "file", "filelike"])
    faults = {}
    if kind != "string":
        if sw.random() < 0.6:
            faults["short"] = [sw.choice([1, 2, 3, 5, 8, 64, 500])
                               for _ in range(sw.randrange(1, 5))]
    if mode < 0.27:
        # ---- fault-free differential configuration
        case.update({"mode": "faultfree", "reader": kind, "files": {"main.f90": _l1(text.encode())},
                     "faults": {"main.f90": faults} if faults else {}, "mutations": []})
        return case
    if mode < 0.37:
        data = damage.random_text(st("faults"), sw.randrange(5, 200)).encode("utf-8")
        muts = [{"kind": "random_text", "changed": True}]
    else:
        data, muts = _damage(st, sw, text, cfg, None)
    extra_files = {}
    extra_faults = {}
    if sw.random() < 0.10:
        # INCLUDE dimension: the parsed bytes pull in a second file that is damaged, includes
        # itself / its includer, cannot be opened, or fails while being read
        # (files that include themselves or each other are not generated: the nesting ends only
        # at Python's recursion limit, after tens of seconds of ever deeper reader chains and
        # logged tracebacks -- it does return, but too close to the wall-clock watchdog to judge)
        how = sw.choice(["damaged", "damaged", "eacces", "eio", "ok"])
        frag = " x = 1\n y = sin(x)\n"
        lines_ = data.decode("utf-8", "replace").split("\n")
        if how in ("self", "mutual"):
            # recursion re-delivers the files until Python's recursion limit ends the nesting
            # (several hundred levels): keep them small and the simulated reads large, so that
            # the effective input stays a few thousand lines
            lines_ = lines_[:8]
            faults.pop("short", None)
        pos = sw.randrange(0, len(lines_) + 1)
        lines_.insert(pos, " include 'inc.f90'")
        if how == "only_include":
            lines_ = [" include 'main.f90'"]
        data = "\n".join(lines_).encode("utf-8")
        if how == "damaged":
            fdata, _ = _damage(st, sw, frag * 3, cfg, None)
        elif how == "self":
            fdata = (frag + " include 'inc.f90'\n").encode()
        elif how == "mutual":
            fdata = (frag + " include 'main.f90'\n").encode()
        else:
            fdata = frag.encode()
        extra_files["inc.f90"] = _l1(fdata)
        if how == "eacces":
            extra_faults["inc.f90"] = {"eacces": True}
        if how == "eio":
            extra_faults["inc.f90"] = {"eio_at": sw.randrange(0, len(fdata)), "eio_open": 0}
        muts = muts + [{"kind": "include_" + how, "changed": True}]
    if kind == "file" and sw.random() < 0.10:
        # the file changes between the reader's two opens: a prefix of itself (a writer that has
        # not finished), itself plus more, or a different program in the other source form
        how = sw.choice(["prefix", "longer", "other"])
        if how == "prefix":
            alt = data[: sw.randrange(0, max(1, len(data)))]
        elif how == "longer":
            alt = data + b"\n      x = 1\n      end\n"
        else:
            alt = ("      program other\n      integer i\nC comment\n      i = 1\n"
                   "      end program other\n").encode()
        faults["alt_from_open2"] = _l1(alt)
        muts = muts + [{"kind": "changed_between_opens_" + how, "changed": True}]
    if kind != "string":
        r = sw.random()
        if r < 0.12:
            faults["eio_at"] = sw.randrange(0, max(1, len(data)))
            faults["eio_open"] = sw.choice([1, 2, 2, 0])
            faults["eio_once"] = sw.random() < 0.5
        elif r < 0.17 and kind == "filelike":
            faults["noseek"] = True
    files = {"main.f90": _l1(data)}
    files.update(extra_files)
    allf = {"main.f90": faults} if faults else {}
    allf.update(extra_faults)
    case.update({"mode": "parse", "reader": kind, "files": files, "faults": allf,
                 "mutations": muts})
    return case


def sample_view(case):
    view = dict(case)
    if "files" in case:
        view["files"] = {k: v[:600] for k, v in case["files"].items()}
    if "batch" in case:
        view["batch"] = case["batch"][:4]
    return view


# --------------------------------------------------------------------------- execution
def _budget(nlines):
    return 200000 + 20000 * nlines


def _cli_run(std, task, order):
    """Call the real CLI runner with captured stdout/stderr."""
    from fparser.scripts import fparser2 as cli

    options = types.SimpleNamespace(std=std, task=task)
    out, err = io.StringIO(), io.StringIO()
    old = sys.stdout, sys.stderr
    sys.stdout, sys.stderr = out, err
    res = ["returned"]
    try:
        try:
            cli.runner(None, options, list(order))
        except BaseException as exc:  # noqa: B902
            if isinstance(exc, (KeyboardInterrupt, MemoryError)):
                raise
            res = fp.classify_exception(exc, sys.exc_info()[2])
    finally:
        sys.stdout, sys.stderr = old
    return res, out.getvalue(), err.getvalue()


def _cli_ref_child(arg):
    std, task, name, image = arg
    stats = host.new_stats()
    fs = host.SimFS({k: v.encode("latin-1") for k, v in image.items()}, {}, stats)
    fs.install("cliref-%d" % os.getpid())
    host.install_log_counter()
    try:
        res, out, err = _cli_run(std, task, [name])
        return {"res": res, "out": out}
    finally:
        fs.uninstall()


def _strip_block_numbers(text):
    import re

    return re.sub(r"block:\d+", "block:N", text)


def execute(case):
    stats = host.new_stats()
    events = []
    violations = []
    state_keys = set()

    def probe(name, n=1):
        stats["probes"][name] = stats["probes"].get(name, 0) + n

    def violate(clause, site, detail):
        violations.append({"clause": clause, "site": site, "detail": detail})

    from ..kit import forkrun

    mode = case["mode"]
    std = case["std"]
    if mode == "focus_batch":
        return _execute_focus_batch(case, stats, events, violations, state_keys, probe, violate)
    image = {k: v.encode("latin-1") for k, v in case["files"].items()}
    # ---- references first, while this child is still pristine
    refs = {}
    if mode == "faultfree":
        text = image["main.f90"].decode("utf-8")
        refs["main"] = ref.outcome(std, "string", text, case["opts"])
    elif mode == "cli":
        for name in case["order"]:
            doc = forkrun.call_in_child(_cli_ref_child, (std, case["task"], name, case["files"]))
            refs[name] = doc.get("value") if doc.get("status") == forkrun.STATUS_OK else None

    fs = host.SimFS(image, case.get("faults") or {}, stats).install("c06-%d" % os.getpid())
    logc = host.install_log_counter()
    clock = host.StepClock().install()
    try:
        if mode == "cli":
            nlines = sum(v.count(b"\n") + 1 for v in image.values())
            clock.start(_budget(nlines))
            res, out, err = _cli_run(std, case["task"], case["order"])
            events.append(["cli", res, fp.sha(out), fp.sha(err)])
            pos = [case["order"].index(d) for d in case["damaged"]]
            if 0 in pos:
                probe("cli_damaged_first")
            if len(case["order"]) - 1 in pos:
                probe("cli_damaged_last")
            if any(0 < p < len(case["order"]) - 1 for p in pos):
                probe("cli_damaged_middle")
            if res[0] == "exit":
                probe("system_exit_trapped")
                violate("C06.e cli-batch-terminated-by-exit", res[1],
                        {"order": case["order"], "damaged": case["damaged"]})
            elif res[0] == "budget":
                site, depth = budget_site(["\n".join(
                    image[n].decode("utf-8", "replace") for n in sorted(image))], "cli")
                violate("C06.d step-budget-exceeded", site, {"count": res[1],
                                                             "if_where_nesting": depth})
            elif res[0] != "returned":
                violate("C06.e cli-batch-aborted-by-exception", "%s@%s" % (res[1], res[2]),
                        {"order": case["order"], "damaged": case["damaged"]})
            else:
                files_seen = [ln[7:-1] for ln in err.split("\n")
                              if ln.startswith("File: '") and ln.endswith("'")]
                if files_seen != case["order"]:
                    violate("C06.e cli-file-lines", "runner", {"seen": files_seen,
                                                               "order": case["order"]})
                if all(refs.get(n) and refs[n]["res"][0] == "returned" for n in case["order"]):
                    want = "".join(refs[n]["out"] for n in case["order"])
                    if _strip_block_numbers(out) != _strip_block_numbers(want):
                        violate("C06.e cli-batch-output-differs-from-standalone", "runner",
                                {"got": out[:300], "want": want[:300]})
            state_keys.add(("cli", len(case["order"]), tuple(pos), res[0]))
            fired = True
        else:
            kind = case["reader"]
            data = image["main.f90"]
            nlines = data.count(b"\n") + 1
            file_faults = (case.get("faults") or {}).get("main.f90", {})
            io_fault = "eio_at" in file_faults or file_faults.get("noseek")
            if any(m["kind"].startswith("include_") for m in case["mutations"]):
                probe("include_dimension")
            if any(m["kind"].startswith("nest_") for m in case["mutations"]):
                probe("deep_nest_with_damaged_closer")
            if any(m["kind"].startswith("changed_between_opens") for m in case["mutations"]):
                probe("file_changed_between_opens")
            source = "main.f90" if kind != "string" else data.decode("utf-8", "replace")
            parser = fp.create(std)
            clock.start(_budget(nlines), lambda: _budget(
                nlines + stats["logical"].get("newlines_served", 0)))
            reader = None
            outcome = None
            try:
                reader = fp.make_reader(kind, source, case["opts"], fs=fs, stats=stats)
            except BaseException as exc:  # noqa: B902
                if isinstance(exc, (KeyboardInterrupt, MemoryError)):
                    raise
                out = fp.classify_exception(exc, sys.exc_info()[2])
                outcome = ["construct-" + out[0]] + out[1:]
                allowed = io_fault and isinstance(exc, OSError)
                if not allowed:
                    if out[0] == "exit":
                        violate("C06.b process-exit", out[1], {"phase": "reader construction"})
                    else:
                        violate("C06.a reader-construction-raises", "%s@%s" % (out[1], out[-1]),
                                {"kind": kind})
            if reader is not None:
                outcome, _, exc = fp.parse_with(parser, reader)
                if outcome[0] == "ok":
                    probe("outcome_tree")
                elif outcome[0] == "syntax":
                    probe("outcome_syntax")
                elif outcome[0] == "exit":
                    probe("system_exit_trapped")
                    violate("C06.b process-exit", outcome[1], {"phase": "parse"})
                elif outcome[0] == "budget":
                    texts = [data.decode("utf-8", "replace")] + [
                        image[n].decode("utf-8", "replace") for n in sorted(image)
                        if n != "main.f90"]
                    site, depth = budget_site(texts, kind)
                    violate("C06.d step-budget-exceeded", site, {"count": outcome[1],
                                                                  "lines": nlines,
                                                                  "if_where_nesting": depth})
                elif outcome[0] == "printfail":
                    violate("C06.c print-raises", "%s@%s" % (outcome[1], outcome[2]), {})
                elif outcome[0] == "escape":
                    injected = any(exc is e for e in fs.injected_errors())
                    stream = getattr(reader, "_verif_stream", None)
                    if not injected:
                        violate("C06.a exception-escapes", "%s@%s" % (outcome[1], outcome[2]),
                                {"message": str(exc)[:200]})
            events.append(["parse", kind, fp.outcome_digest(outcome), clock.count])
            if case.get("focused"):
                probe("focused_single_token_fault")
            if logc.decode_skips:
                probe("decode_handler_fired", logc.decode_skips)
            if stats["faults"].get("eio"):
                which = file_faults.get("eio_open", 0)
                probe("eio_on_second_open" if which == 2 else "eio_on_first_open")
            for m in case["mutations"]:
                for w in m.get("where", []):
                    probe("trunc_inside_" + w)
            if mode == "faultfree":
                probe("faultfree_compared")
                want = refs["main"]["outcome"]
                events.append(["ref", fp.outcome_digest(want)])
                if want[0] == "ok" and not fp.same_outcome(outcome, want):
                    violate("C06.f faultfree-reader-kind-changes-outcome", kind,
                            {"got": fp.outcome_digest(outcome), "want": fp.outcome_digest(want)})
            kinds = tuple(sorted({m["kind"] for m in case["mutations"]} |
                                 {k for k in file_faults if k in ("short", "eio_at", "noseek",
                                                                  "alt_from_open2")}))
            state_keys.add((mode, kinds, kind, tuple(sorted(case["opts"])), outcome[0],
                            outcome[-1] if outcome[0] in ("syntax", "escape") else ""))
            fired = any(m.get("changed") for m in case["mutations"]) or bool(stats["faults"])
        stats["logical"]["ops"] = stats["logical"].get("ops", 0) + 1
        stats["logical"]["rule_constructions"] = clock.count
        if mode != "cli" and case["reader"] != "string" and fs.seam_bypassed(["main.f90"]):
            stats.setdefault("counters", {})["seam_bypassed"] = 1
        return {"events": events, "violations": violations, "stats": stats,
                "nontrivial": bool(fired), "state_keys": [list(map(str, k)) for k in
                                                          sorted(state_keys, key=str)],
                "discarded": None}
    finally:
        clock.uninstall()
        fs.uninstall()


def _execute_focus_batch(case, stats, events, violations, state_keys, probe, violate):
    host.install_log_counter()
    clock = host.StepClock().install()
    try:
        for sub, one in enumerate(case["batch"]):
            text = one["text"].encode("latin-1").decode("utf-8", "replace")
            parser = fp.create(one["std"])
            clock.start(_budget(text.count("\n") + 1))
            outcome, _, exc = fp.parse_with(parser, fp.make_reader(
                "string", text, {"ignore_comments": True}))
            events.append(["focus", sub, fp.outcome_digest(outcome), clock.count])
            probe("table_driven_intrinsic_reference" if case.get("table_driven")
                  else "focused_single_token_fault")
            detail = {"sub": sub, "text": text, "std": one["std"]}
            if outcome[0] == "ok":
                probe("outcome_tree")
            elif outcome[0] == "syntax":
                probe("outcome_syntax")
            elif outcome[0] == "exit":
                probe("system_exit_trapped")
                violate("C06.b process-exit", outcome[1], dict(detail, phase="parse"))
            elif outcome[0] == "budget":
                site, depth = budget_site([text], "string")
                violate("C06.d step-budget-exceeded", site,
                        dict(detail, count=outcome[1], if_where_nesting=depth))
            elif outcome[0] == "printfail":
                violate("C06.c print-raises", "%s@%s" % (outcome[1], outcome[2]), detail)
            elif outcome[0] == "escape":
                violate("C06.a exception-escapes", "%s@%s" % (outcome[1], outcome[2]),
                        dict(detail, message=str(exc)[:200]))
            state_keys.add(("focus", outcome[0],
                            outcome[-1] if outcome[0] in ("syntax", "escape") else ""))
        stats["logical"]["ops"] = len(case["batch"])
        return {"events": events, "violations": violations, "stats": stats, "nontrivial": True,
                "state_keys": [list(map(str, k)) for k in sorted(state_keys, key=str)],
                "discarded": None}
    finally:
        clock.uninstall()


# --------------------------------------------------------------------------- shrinking
def shrink_candidates(case):
    import copy

    if case["mode"] == "focus_batch":
        if len(case["batch"]) > 1:
            for k in range(len(case["batch"])):
                c = copy.deepcopy(case)
                c["batch"] = [case["batch"][k]]
                yield c
        else:
            # hand over to the ordinary single-file shrinker
            one = case["batch"][0]
            c = {"prop": ID, "std": one["std"], "opts": {"ignore_comments": True},
                 "mode": "parse", "reader": "string", "files": {"main.f90": one["text"]},
                 "faults": {}, "mutations": [{"kind": "shrunk"}],
                 "run_seed": case.get("run_seed")}
            yield c
        return
    if case["mode"] == "cli":
        if len(case["order"]) > 1:
            for k in range(len(case["order"])):
                c = copy.deepcopy(case)
                nm = c["order"].pop(k)
                c["files"].pop(nm)
                c["damaged"] = [d for d in c["damaged"] if d != nm]
                yield c
        names = case["order"]
    else:
        names = ["main.f90"]
        if case.get("faults"):
            c = copy.deepcopy(case)
            c["faults"] = {}
            yield c
        if case["reader"] != "string":
            c = copy.deepcopy(case)
            c["reader"] = "string"
            c["faults"] = {}
            yield c
        if len(case["opts"]) > 1 or not case["opts"].get("ignore_comments", True):
            c = copy.deepcopy(case)
            c["opts"] = {"ignore_comments": True}
            yield c
    # line-level ddmin on each file
    for nm in names:
        lines = case["files"][nm].split("\n")
        n = len(lines)
        chunk = max(1, n // 2)
        while chunk >= 1:
            for start in range(0, n, chunk):
                if n - chunk < 1:
                    continue
                c = copy.deepcopy(case)
                c["files"][nm] = "\n".join(lines[:start] + lines[start + chunk:])
                c["mutations"] = [{"kind": "shrunk"}] if case["mode"] != "cli" else case["mutations"]
                yield c
            if chunk == 1:
                break
            chunk //= 2
    # token-level shrink of single lines for very small files
    for nm in names:
        lines = case["files"][nm].split("\n")
        if len(lines) <= 6:
            for k, ln in enumerate(lines):
                toks = damage.tokenize(ln)
                for t in range(len(toks)):
                    c = copy.deepcopy(case)
                    new = "".join(toks[:t] + toks[t + 1:])
                    c["files"][nm] = "\n".join(lines[:k] + [new] + lines[k + 1:])
                    if case["mode"] != "cli":
                        c["mutations"] = [{"kind": "shrunk"}]
                    yield c

"""C09 -- a parse is a function of its input, not of earlier parses.

System under simulation: one interpreter's fparser2 process-global state
(SYMBOL_TABLES, Base.subclasses, the string_replace_map memo, Block_Stmt.counter,
fparser1's cache) driven through the public API by a seeded history.  Reference
model: a fresh process that does create(s); parse(x) (ref.outcome, computed in
pristine grandchildren before the first operation) plus the abstract state
{std, clean, tables}.  The fault is the failing parse: invalid sources and stream
faults that make a valid program fail at physical line k.
"""
import os
import sys

from .. import ref
from ..gen import damage, fgen, layout
from ..kit import fp, host, rng

ID = "C09"
hang_is_violation = False

TIERS = {
    "quick": {"budget_s": 75, "exhaustive_len": 2, "alphabet_random": 0.4, "max_ops": 8, "size": (2, 10), "pool": (2, 3), "run_timeout": 90.0,
              "determinism_every": 40},
    "thorough": {"budget_s": 1200, "exhaustive_len": 3, "alphabet_random": 0.5, "max_ops": 12, "size": (2, 22), "pool": (3, 5),
                 "run_timeout": 120.0, "determinism_every": 300, "determinism_max": 200},
}

RULE = ("first, bounded-exhaustively: every history of length <= 2 (quick) / <= 3 (thorough) over "
        "the 22-symbol alphabet {create(f2003), create(f2008), 9 fixed valid, 6 fixed invalid programs, "
        "2 files that INCLUDE a same-named file from different directories, a file whose parse fails "
        "inside the included file, deletion and rewriting of one of those include files}, "
        "each followed by create(s); parse(x) for both standards and 9 fixed probe programs, the "
        "f2008-only probes under f2003 and the two including files "
        "(506 / 11154 runs; longer histories over the same alphabet are sampled, enumerated by run index); then, for the rest of the budget, one "
        "run = one seeded history of <=12 operations over {create(f2003|f2008|None|invalid), "
        "parse(valid_i|invalid_j, reader options, reader kind, stream fault at line k), direct "
        "rule use, fparser1 api.parse, print of an earlier tree, edit of an earlier tree, memo "
        "eviction} over a pool of small programs with colliding unit names and intrinsic-"
        "shadowing declarations; every parse in a clean state is compared with a fresh-process "
        "reference, every failing parse is checked to leave scope and tables unchanged; "
        "non-trivial = the history contains a failing parse followed by a compared parse, or "
        ">=2 create; distinct = distinct event-log digest")
ASSUMPTIONS = [
    "reference = same code in a child forked from a process that never called create()",
    "outcomes are compared by class, block-renumbered repr and text; error messages are not",
    "after a successful parse with the same registry later outcomes are not compared (tables "
    "accumulate by design); the scope/tables check after a failing parse applies in any state",
    "async cancellation is not injected: the property's histories contain only create and parse",
]
COMPONENTS = {
    "real": ["fparser.two.parser.ParserFactory", "fparser.two.symbol_table", "fparser.two (rules)",
             "fparser.common.readfortran / splitline (memo)", "fparser.api (fparser1)"],
    "stub": ["the caller (seeded history)", "line stream with EOF / error at line k",
             "process exit (SystemExit trap)"],
}
PROBES = ["file_system_changed_between_parses", "sampled_alphabet_history_run", "history_with_include_files", "exhaustive_history_run", "failing_parse_scope_depth_ge2", "main_program0_path", "same_unit_name_consecutive",
          "compared_in_clean_state", "compared_after_failure", "block_counter_nonzero_at_compare",
          "fparser1_interleaved", "create_switches_std", "stream_fault_failure",
          "failure_in_unclean_state", "exit_trapped", "near_twin_sources_both_parsed",
          "failing_parse_while_like_named_table_exists"]
STATE_MEASURE = ("distinct (std, clean, open scope name, table-name set, memo-size bucket) after "
                 "each operation, plus distinct op-kind sequences")


# --------------------------------------------------------------------------- generation
def _program(st, sw, std, cfg, tag, force=None):
    size = sw.randrange(cfg["size"][0], cfg["size"][1] + 1)
    gen = fgen.Gen(st("workload" + tag), std, size, max_depth=2)
    r = sw.random()
    names = fgen.UNIT_NAMES[:4]
    nm = sw.choice(names)
    kind = force or ("main0" if r < 0.2 else "main" if r < 0.45 else "module" if r < 0.7
                     else "sub" if r < 0.9 else "multi")
    if kind == "main0":
        gen.budget = size
        gen.main_program(None)
    elif kind == "main":
        gen.budget = size
        gen.main_program(nm)
    elif kind == "module":
        gen.budget = size
        gen.module(nm)
    elif kind == "sub":
        gen.budget = size
        gen.subprogram(0, nm, allow_contains=True)
    else:
        gen.program()
    stmts = gen.out
    if sw.random() < 0.6:
        return fgen.simple_text(stmts), stmts
    rend = layout.render_free(stmts, st("layout" + tag), {
        "max_cuts": 1, "comments": 0.1, "semi": 0.05, "base_indent": 1, "token_cut": False,
        "trail": 0.1})
    return rend.text, stmts


_SIMPLE_LINE = None


def _semi_join(text, sw, rate=0.5):
    """Join some consecutive simple statements with ';' (the fresh-process reference decides what
    the result must be, so the transformation need not preserve validity)."""
    import re

    global _SIMPLE_LINE
    if _SIMPLE_LINE is None:
        _SIMPLE_LINE = re.compile(r"^\s*(call\b|print\b|write\b|\w+(\([^!&]*\))?\s*=[^=])[^!&;]*$", re.I)
    lines = text.split("\n")
    out = []
    for ln in lines:
        if (out and _SIMPLE_LINE.match(ln) and _SIMPLE_LINE.match(out[-1].split(";")[-1])
                and sw.random() < rate):
            out[-1] = out[-1].rstrip() + "; " + ln.strip()
        else:
            out.append(ln)
    return "\n".join(out)


def _twin(text, sw):
    """A near-twin of a source: equal to it up to letter case, or up to the contents of its
    character literals, or up to blanks.  Parsed in the same history as the original, each
    must still give its own fresh-process result."""
    how = sw.choice(["lit_swapcase", "lit_swapcase", "code_upper", "lit_reverse", "both_case",
                     "blanks"])
    out = []
    quote = None
    buf = ""
    for ch in text:
        if quote is None:
            if ch in "'\"":
                quote = ch
                out.append(ch)
                buf = ""
            elif ch == "!":
                quote = "!"                    # a comment runs to the end of the line
                out.append(ch)
            else:
                if how in ("code_upper", "both_case"):
                    ch = ch.upper()
                elif how == "blanks" and ch == " ":
                    ch = "  "
                out.append(ch)
        elif quote == "!":
            out.append(ch)
            if ch == "\n":
                quote = None
        elif ch == quote or ch == "\n":
            if how in ("lit_swapcase", "both_case"):
                buf = buf.swapcase()
            elif how == "lit_reverse":
                buf = buf[::-1]
            out.append(buf + ch)
            quote = None
        else:
            buf += ch
    if quote not in (None, "!"):
        out.append(buf)
    return "".join(out), how


# Lines whose presence makes a parse fail through one particular exit of the parser each.
INJECT = [
    "y = sin(1.0, 2.0)",          # InternalSyntaxError (intrinsic with wrong argument count)
    "x = 1 +",                    # NoMatchError from deep inside
    "end do nosuchname",          # FortranSyntaxError raised in BlockBase.match
    "real } x",                   # InternalError (Kind_Selector)
    "dangling:",                  # sys.exit from the reader
    "x = (/ 1, /)",
    "if (x) then",                # construct never closed
    "end subroutine nosuchname",
    "integer :: 1bad",
    "call s(,)",
]

TINY = [
    "x = sin(y)\nend\n", "x = 1\ndo i = 1, 2\nend do foo\nend\n", "program p\nend program p\n",
    "program p\ncontains\nsubroutine s\nend subroutine t\nend program p\n",
    "module m\ninteger :: sin\nend module q\n", "real :: sin(3)\nx = sin(2)\nend\n",
    "program p\nx = max(1,2)\nend program p\n", "module m\nreal :: max(2)\ncontains\n"
    "subroutine s\nx = max(1)\nend subroutine s\nend module m\n",
    "subroutine s\nreal :: cos(2)\nx = cos(1) +\nend subroutine s\n",
    "program p\ninteger :: i\nif (i) then\nend program p\n",
]


# ---- bounded-exhaustive part: every history over a small fixed alphabet ----------------
# One program, valid under both standards, that walks through as many statement and construct
# classes as possible (in particular those Fortran2008 overrides: IF, ALLOCATE, OPEN, STOP,
# type declarations, DO terminators): state keyed by class that survives create() shows here.
KITCHEN_SINK = """module ks_m
implicit none
integer, parameter :: ip = 4
type :: pt
real :: cx, cy
end type pt
interface gen
module procedure g1
end interface gen
contains
subroutine g1(u)
real, intent(in) :: u
real, allocatable :: w(:)
real :: a(10), mat(3, 3), x
integer :: i, j, n
character(len=20) :: c1
logical :: flag
type(pt) :: pnt
namelist /nl/ i, j
common /blk/ x
n = 3
allocate(w(0:n), stat=i)
do 10 i = 1, 3
10 if (i > 1) a(i) = i
do 20 i = 1, 3
20 allocate(w(i))
do 30 i = 1, 3
30 open(10, file='x.dat')
do 40 i = 1, 3
do 40 j = 1, 3
40 mat(i, j) = 0.0
do 50 i = 1, 3
a(i) = sin(u) + max(1.0, u)
50 continue
lp: do i = 1, n
if (a(i) < 0.0) cycle lp
if (a(i) > 9.0) then
exit lp
else if (flag) then
a(i) = 1.0
else
a(i) = 2.0
end if
end do lp
do while (x > 0.0)
x = x - 1.0
end do
select case (i)
case (1)
x = 1.0
case (2:3)
x = 2.0
case default
x = 0.0
end select
where (a > 0.0)
a = sqrt(a)
elsewhere
a = 0.0
end where
forall (i = 1:n) a(i) = i
associate (v => x + 1.0)
x = v
end associate
pnt%cx = pnt%cy + a(2)
write(*, '(a, i3)') 'n =', n
read(5, *, iostat=i) x
open(unit=11, file=c1, status='old', iostat=i)
close(11)
inquire(file='f.dat', exist=flag)
print *, c1(2:4) // 'abc', [1.0, 2.0]
if (flag) stop 1
deallocate(w, stat=i)
call g1(x)
return
end subroutine g1
end module ks_m
program ks_p
use ks_m
real :: y
y = cos(1.0)
call g1(y)
stop
end program ks_p
"""

KITCHEN_SINK_08 = """module ks8_m
implicit none
integer, codimension[*] :: co1
real, contiguous, pointer :: cptr(:)
contains
subroutine g8(u)
real, intent(in) :: u
real, allocatable :: w(:), a(:)
integer :: i, n, lun
n = 3
open(newunit=lun, file='in.dat', status='old')
open(unit=10, file='a.dat')
allocate(w(n), mold=a)
blk: block
integer :: sin
sin = 2
end block blk
block
real :: t
t = cos(u)
end block
critical
n = n + 1
end critical
do concurrent (i = 1:n)
w(i) = i
end do
do 10 i = 1, 3
10 if (i > 1) error stop 'bad'
if (n > 3) error stop
stop n + 1
end subroutine g8
end module ks8_m
submodule (ks8_m) ks8_s
contains
subroutine s2()
end subroutine s2
end submodule ks8_s
"""
# relaxed fixed form: a label in columns 1-2 and text before column 7 make the reader switch to
# free form in mid-file (reader-side state in the source-form handling)
RELAXED_A = "      subroutine sa(x)\n      real x\n10 x = 2.0\n      end subroutine sa\n"
RELAXED_B = ("      subroutine sb(y)\n      real y\n      y = 1.0\n20 y = 3.0 + sin(y)\n"
             "      end subroutine sb\n")
MULTI_USE = """module um
integer :: a, b, c
end module um
subroutine us1
use um, la => a
use um, only: c
use um
use um, only: b, lb => b
x = 1
end subroutine us1
subroutine us2
use um, only: a
use um, lc => c
use um, only:
x = 2
end subroutine us2
subroutine us3(v, w)
use um, only: a
use um, only: max, dot_product, sin, cos
real :: v(3), w(3)
x = max(1.0, 2.0) + dot_product(v, w) + sin(1.0) + cos(2.0)
end subroutine us3
"""
# one tiny program per Fortran 2008-only piece of syntax: under f2003 each must be rejected
# whatever an f2008 parser did earlier in the same process
F08_ONLY = [
    "program r\ninteger :: u\nopen(newunit=u, file='x')\nend program r\n",
    "program r\nreal, allocatable :: w(:), a(:)\nallocate(w(3), mold=a)\nend program r\n",
    "program r\nerror stop\nend program r\n",
    "program r\nblock\ninteger :: i\nend block\nend program r\n",
    "program r\ncritical\nx = 1\nend critical\nend program r\n",
    "program r\ndo concurrent (i = 1:3)\nx = i\nend do\nend program r\n",
    "program r\nreal, contiguous, pointer :: p(:)\nend program r\n",
    "program r\ninteger, codimension[*] :: c\nend program r\n",
    "submodule (m) s\nend submodule s\n",
    "program r\nstop 1 + 2\nend program r\n",
    "program r\ndo 10 i = 1, 3\n10 if (i > 1) error stop\nend program r\n",
    "program r\nprocedure(real), pointer :: pq => fext\nend program r\n",
]

ALPHABET_POOL = {
    "V1": "module m\nreal :: sin(3)\ncontains\nsubroutine s\nx = sin(1)\nend subroutine s\n"
          "end module m\n",
    "V2": "x = sin(y)\nend\n",
    "V3": "program p\ninteger :: i\nblock\nreal :: max(2)\ni = max(1)\nend block\n"
          "end program p\n",
    "V4": "subroutine s\nreal :: cos(2)\nx = cos(1)\nend subroutine s\nfunction f(a)\n"
          "f = cos(a)\nend function f\n",
    "I1": "x = 1\ndo i = 1, 2\nend do foo\nend\n",
    "I2": "program p\ncontains\nsubroutine s\nend subroutine t\nend program p\n",
    "I3": "module m\ninteger :: sin\nend module q\n",
    "I4": "subroutine s\nreal :: cos(2)\nx = cos(1) +\nend subroutine s\n",
    "I5": "subroutine s\nreal :: max(3)\ny = sin(1.0, 2.0)\nend subroutine s\n",
    # re-enters the table (and the USE entry) that MULTI_USE leaves for us2, adds to both, fails
    "I6": "subroutine us2\nuse um, only: sum, lz => b\ninteger :: extra\nx = = 2\n"
          "end subroutine us2\n",
    "V5": KITCHEN_SINK,
    "X4": KITCHEN_SINK,
    "V6": KITCHEN_SINK_08,
    "V7": RELAXED_A,
    "V8": MULTI_USE,
    "X5": RELAXED_B,
    "X6": MULTI_USE,
    # top-level units named like the units of the failing programs, referencing the intrinsics
    # those declare: tables of a failed parse that come back for a like-named unit show here
    "X7": "subroutine s\nx = max(1.0, 2.0) + cos(1.0) + sin(2.0)\nend subroutine s\n"
          "program p\ny = max(1, 2) + sin(1.0)\nend program p\n"
          "module m\ncontains\nsubroutine t\nz = sin(1.0) + max(1, 2)\nend subroutine t\n"
          "end module m\n",
    "X1": "x = sin(y) + cos(y)\nend\n",
    "X2": "module m\ncontains\nsubroutine s\nx = sin(1) + cos(2) + max(1, 2)\n"
          "end subroutine s\nend module m\n",
    "X3": "program p\nx = max(1, 2)\nblock\ny = 1\nend block\nend program p\n",
    # near-twins: the same lines up to letter case, differing only inside character literals (and
    # in the case of the code); anything remembered under a normalised spelling of a line shows
    "V9": "subroutine tw(n)\ncharacter(len=12) :: a\na = 'Hello World'; n = 1\n"
          "write(*, '(a, i3)') 'no. of items', n; n = 2\nif (a == \"it's\") n = 3; a = 'x!y'\n"
          "end subroutine tw\n",
    "X8": "SUBROUTINE TW(N)\nCHARACTER(LEN=12) :: A\nA = 'HELLO WORLD'; N = 1\n"
          "WRITE(*, '(A, I3)') 'No. of Items', N; N = 2\nIF (A == \"IT'S\") N = 3; A = 'X!Y'\n"
          "END SUBROUTINE TW\n",
    "X9": "subroutine tw(n)\ncharacter(len=12) :: a\na = 'hello world'; n = 1\n"
          "write(*, '(A, i3)') 'No. Of Items', n; n = 2\nif (a == \"It's\") n = 3; a = 'X!y'\n"
          "end subroutine tw\n",
}
ALPHABET = ["c03", "c08", "V1", "V2", "V3", "V4", "V5", "V6", "V7", "V8", "V9", "I1", "I2", "I3", "I4",
            "I5", "I6", "Fa", "Fb", "Ba", "Db", "Wb"]
for _k, _t in enumerate(F08_ONLY):
    ALPHABET_POOL["N%d" % _k] = _t
# the fixed file system of the alphabet: two directories whose main files INCLUDE a file of the
# same name with different content
ALPHABET_FS = {
    "a/main.f90": " program incl\n include 'frag.inc'\n end program incl\n",
    "a/frag.inc": " integer :: from_a\n from_a = 1\n",
    "b/main.f90": " program incl\n include 'frag.inc'\n end program incl\n",
    "b/frag.inc": " real :: from_b\n from_b = sin(2.0)\n",
    # fails *inside* the included file (declarations in the middle of an IF construct): the
    # parse is abandoned while the include reader is still open
    "a/bad2.f90": " program incl2\n x = 1\n if (x > 0) then\n include 'frag.inc'\n end if\n"
                  " end program incl2\n",
}
FILE_SYMS = {"Fa": "a/main.f90", "Fb": "b/main.f90", "Ba": "a/bad2.f90"}
# the file system changes between parses: the include file of b is deleted / rewritten
FS_SYMS = {"Db": ["fs_delete", "b/frag.inc"],
           "Wb": ["fs_write", "b/frag.inc", " logical :: from_b2\n from_b2 = .true.\n"]}


def exhaustive_count(max_len):
    return sum(len(ALPHABET) ** k for k in range(1, max_len + 1))


def exhaustive_history(index):
    """index -> history (list of alphabet symbols), shortest first."""
    k = 1
    while index >= len(ALPHABET) ** k:
        index -= len(ALPHABET) ** k
        k += 1
    hist = []
    for _ in range(k):
        hist.append(ALPHABET[index % len(ALPHABET)])
        index //= len(ALPHABET)
    return hist


def _exhaustive_case(index):
    hist = exhaustive_history(index)
    ops = [["create", "f2003"]]
    plain = {"ignore_comments": True}
    for sym in hist:
        if sym == "c03":
            ops.append(["create", "f2003"])
        elif sym == "c08":
            ops.append(["create", "f2008"])
        elif sym in FILE_SYMS:
            ops.append(["parse", FILE_SYMS[sym], plain, "file", None])
        elif sym in FS_SYMS:
            ops.append(list(FS_SYMS[sym]))
        else:
            ops.append(["parse", sym, plain, "string", None])
    for std in ("f2003", "f2008"):
        for x in ("X1", "X2", "X3", "X4", "X5", "X6", "X7", "X8", "X9"):
            ops.append(["create", std])
            ops.append(["parse", x, plain, "string", None])
        if std == "f2003" and ("c08" in hist or "V6" in hist):
            # an f2008 parser existed (or f2008-only text was read) earlier in this process: the
            # f2003 parser must still reject every piece of f2008-only syntax
            for k in range(len(F08_ONLY)):
                ops.append(["create", std])
                ops.append(["parse", "N%d" % k, plain, "string", None])
        for path in ("b/main.f90", "a/main.f90"):
            ops.append(["create", std])
            ops.append(["parse", path, plain, "file", None])
    pool = dict(ALPHABET_POOL)
    pool.update(ALPHABET_FS)
    return {"prop": ID, "pool": pool, "ops": ops, "exhaustive_index": index,
            "history": hist, "fs": dict(ALPHABET_FS)}


def prepare(cfg):
    """Fresh-process references for the fixed alphabet, computed once per batch in the
    pristine template process (a replay recomputes them itself)."""
    refs = {}
    plain = {"ignore_comments": True}
    for std in ("f2003", "f2008"):
        for key, text in sorted(ALPHABET_POOL.items()):
            refs["%s|%s" % (std, key)] = ref.outcome(std, "string", text, plain)
        for path in sorted(FILE_SYMS.values()):
            refs["%s|%s" % (std, path)] = ref.outcome(std, "file", path, plain,
                                                      image=dict(ALPHABET_FS))
    return {"_cache_refs": refs}


def generate(run_seed, cfg):
    if cfg.get("index", 0) < exhaustive_count(cfg.get("exhaustive_len", 0)):
        case = _exhaustive_case(cfg["index"])
        if cfg.get("_cache_refs"):
            case["_cache_refs"] = cfg["_cache_refs"]
        return case
    st = rng.Streams(run_seed)
    sw = st("swarm")
    if sw.random() < cfg.get("alphabet_random", 0):
        # a longer history over the same alphabet, sampled (lengths beyond the exhaustive bound)
        n = sw.randrange(cfg.get("exhaustive_len", 2) + 1, 7)
        index = exhaustive_count(n - 1) + sw.randrange(len(ALPHABET) ** n)
        case = _exhaustive_case(index)
        case["sampled_alphabet_history"] = True
        if cfg.get("_cache_refs"):
            case["_cache_refs"] = cfg["_cache_refs"]
        return case
    npool = sw.randrange(cfg["pool"][0], cfg["pool"][1] + 1)
    pool = {}
    fr = st("faults")
    for k in range(npool):
        std = sw.choice(["f2003", "f2003", "f2008"])
        text, _ = _program(st, sw, std, cfg, "v%d" % k)
        if sw.random() < 0.35:
            text = _semi_join(text, sw)
        pool["v%d" % k] = text
        if sw.random() < 0.4:
            pool["w%d" % k], _how = _twin(text, sw)
        # an invalid sibling, biased to fail while scopes are open
        data = text.encode()
        if sw.random() < 0.45:
            # inject one failure-path line at a random position inside the program
            tl = text.split("\n")
            pos = sw.randrange(1, max(2, len(tl) - 1))
            if not tl[pos - 1].split("!")[0].rstrip().endswith("&"):
                tl.insert(pos, "   " + sw.choice(INJECT))
                pool["i%d" % k] = "\n".join(tl)
                continue
        for _ in range(sw.randrange(1, 3)):
            m = damage.gen_mutation(fr, data.decode("utf-8", "surrogateescape"),
                                    classes=sw.choice([["struct"], ["struct", "token"],
                                                       ["token"], ["line"], ["trunc"]]))
            data = damage.apply_mutation(data, m)
        pool["i%d" % k] = data.decode("utf-8", "replace")
    for k in range(sw.randrange(0, 3)):
        pool["t%d" % k] = sw.choice(TINY)
    keys = sorted(pool)
    ops = [["create", sw.choice(["f2003", "f2008", None])]]
    nops = sw.randrange(2, cfg["max_ops"] + 1)
    ntrees = 0
    for _ in range(nops):
        r = sw.random()
        if r < 0.15:
            ops.append(["create", sw.choice(["f2003", "f2008", "f2008", None])])
        elif r < 0.18:
            ops.append(["create_bad", sw.choice(["f2099", "F2003", "f77", "2008"])])
        elif r < 0.72:
            key = sw.choice(keys)
            opts = {"ignore_comments": sw.random() < 0.6}
            if sw.random() < 0.15:
                opts["process_directives"] = True
            kind = "string"
            stream = None
            if sw.random() < 0.25:
                kind = "lines"
                nl = pool[key].count("\n") + 1
                stream = {sw.choice(["stop_at", "raise_at"]): sw.randrange(0, nl + 1)}
            ops.append(["parse", key, opts, kind, stream])
            ntrees += 1
        elif r < 0.80:
            ops.append(["rule", sw.choice(["Expr", "Assignment_Stmt", "Type_Declaration_Stmt",
                                           "Primary", "If_Stmt"]),
                        sw.choice(["a + b*c", "x = sin(y) + 'it''s'", "integer :: cos",
                                   "real :: sin(3)", "max(1, 2)", "if (a) x = 1.0e3",
                                   "f(1)(2:3)", "x ="])])
        elif r < 0.86:
            ops.append(["api", sw.choice(keys)])
        elif r < 0.92 and ntrees:
            ops.append(["print", sw.randrange(ntrees)])
        elif r < 0.96 and ntrees:
            ops.append(["edit", sw.randrange(ntrees)])
        else:
            ops.append(["evict"])
    # make sure the history ends with something that is compared
    ops.append(["create", sw.choice(["f2003", "f2008"])] if sw.random() < 0.3 else
               ["parse", sw.choice(keys), {"ignore_comments": True}, "string", None])
    if ops[-1][0] == "create":
        ops.append(["parse", sw.choice(keys), {"ignore_comments": True}, "string", None])
    case = {"prop": ID, "pool": pool, "ops": ops}
    if sw.random() < 0.3:
        # file-system dimension: two directories with a main file each that INCLUDEs a file of
        # the same name but different content (or, in b, no such file at all); histories that
        # read one and then the other must still give the fresh-process result for each
        frag_a = " integer :: from_a\n from_a = 1\n"
        frag_b = " real :: from_b\n from_b = sin(2.0)\n"
        main = " program incl\n include 'frag.inc'\n end program incl\n"
        bad = " program incl\n include 'frag.inc'\n x = = 1\n end program incl\n"
        bad2 = (" program incl2\n x = 1\n if (x > 0) then\n include 'frag.inc'\n end if\n"
                " end program incl2\n")
        image = {"a/main.f90": main, "a/frag.inc": frag_a, "a/bad.f90": bad, "a/bad2.f90": bad2,
                 "b/main.f90": main, "b/bad.f90": bad, "b/bad2.f90": bad2}
        if sw.random() < 0.7:
            image["b/frag.inc"] = frag_b
        case["fs"] = image
        fops = []
        for _ in range(sw.randrange(2, 5)):
            path = sw.choice(["a/main.f90", "b/main.f90", "a/bad.f90", "b/bad.f90",
                              "a/main.f90", "b/main.f90", "a/bad2.f90", "b/bad2.f90"])
            fops.append(["parse", path, {"ignore_comments": True}, "file", None])
            if sw.random() < 0.4:
                fops.append(["create", sw.choice(["f2003", "f2008"])])
            if sw.random() < 0.35:
                tgt = sw.choice(["a/frag.inc", "b/frag.inc"])
                if sw.random() < 0.5:
                    fops.append(["fs_delete", tgt])
                else:
                    fops.append(["fs_write", tgt, sw.choice([frag_a, frag_b,
                                                             " logical :: other\n other = .true.\n"])])
        pos = sw.randrange(1, len(ops))
        case["ops"] = ops[:pos] + fops + ops[pos:]
        for path in image:
            case["pool"][path] = image[path]
    return case


def sample_view(case):
    return {"ops": case["ops"], "pool": {k: v[:400] for k, v in case["pool"].items()}}


# --------------------------------------------------------------------------- execution
def _scope_pattern(name):
    if name is None:
        return "none"
    if name.startswith("fparser2:"):
        return name
    if name.startswith("block:"):
        return "block:N"
    return "<unit>"


def _evict_memo():
    """Empty the tokenisation memo (legal for a cache).  Reached through the wrapper's
    closure; reports False if the closure shape ever changes."""
    from fparser.common import splitline

    fn = splitline.string_replace_map
    cells = getattr(fn, "__closure__", None) or ()
    for cell in cells:
        try:
            val = cell.cell_contents
        except ValueError:
            continue
        if isinstance(val, dict):
            val.clear()
            return True
    return False


def _memo_size():
    from fparser.common import splitline

    for cell in getattr(splitline.string_replace_map, "__closure__", None) or ():
        try:
            val = cell.cell_contents
        except ValueError:
            continue
        if isinstance(val, dict):
            return len(val)
    return -1


def _max_scope_depth_names(text):
    """How many scoping units are open at the deepest point of the source (rough, for a
    probe only)."""
    depth = best = 0
    for ln in text.lower().split("\n"):
        s = ln.strip()
        if s.startswith(("program ", "module ", "subroutine ", "function ", "block")) or \
                " function " in s:
            depth += 1
            best = max(best, depth)
        elif s.startswith("end"):
            depth = max(0, depth - 1)
    return best


def execute(case):
    stats = host.new_stats()
    events = []
    violations = []
    state_keys = set()
    pool = case["pool"]
    ops = case["ops"]

    def probe(name, n=1):
        stats["probes"][name] = stats["probes"].get(name, 0) + n

    def violate(clause, site, detail):
        violations.append({"clause": clause, "site": site, "detail": detail})

    # ---- references first (this child is still pristine): one per parse op, under the
    # standard the model says is current at that point
    std = None
    refs = {}
    image_now = dict(case.get("fs") or {})
    fs_changed = False
    op_ref_key = {}
    for k, op in enumerate(ops):
        if op[0] == "create":
            std = op[1] or "f2003"
        elif op[0] == "fs_write":
            image_now[op[1]] = op[2]
            fs_changed = True
        elif op[0] == "fs_delete":
            image_now.pop(op[1], None)
            fs_changed = True
        elif op[0] == "parse":
            fs_tag = fp.sha(repr(sorted(image_now.items()))) if (op[3] == "file" and fs_changed) \
                else ""
            key = (std, op[1], repr(sorted(op[2].items())), op[3], repr(op[4]), fs_tag)
            op_ref_key[k] = key
            cached = (case.get("_cache_refs") or {}).get("%s|%s" % (std, op[1]))
            if key not in refs and cached is not None and op[3] in ("string", "file") and \
                    op[2] == {"ignore_comments": True} and "exhaustive_index" in case and \
                    not fs_tag:
                refs[key] = cached
            if key not in refs:
                if op[3] == "lines":
                    refs[key] = _ref_lines(std, pool[op[1]], op[2], op[4])
                elif op[3] == "file":
                    refs[key] = ref.outcome(std, "file", op[1], op[2], image=dict(image_now))
                else:
                    refs[key] = ref.outcome(std, "string", pool[op[1]], op[2])
    host.install_log_counter()
    fs = None
    if case.get("fs"):
        fs = host.SimFS({k: v.encode("utf-8") for k, v in case["fs"].items()}, {},
                        stats).install("c09-%d" % os.getpid())
        probe("history_with_include_files")
    parsed_keys = set(op[1] for op in case["ops"] if op[0] == "parse")
    if any(k.startswith("w") and "v" + k[1:] in parsed_keys for k in parsed_keys) or (
            "V9" in parsed_keys):
        probe("near_twin_sources_both_parsed")
    if "exhaustive_index" in case:
        if case.get("sampled_alphabet_history"):
            probe("sampled_alphabet_history_run")
        else:
            probe("exhaustive_history_run")
            stats.setdefault("counters", {})["exhaustive_len_%d" % len(case["history"])] = 1

    parser = None
    std = None
    clean = False
    trees = []
    last_failure = None
    prev_parse_key = None
    kinds_seq = []
    had_failure_then_compare = False
    ncreate = 0
    for k, op in enumerate(ops):
        kinds_seq.append(op[0])
        if op[0] == "create":
            new_std = op[1] or "f2003"
            if std is not None and new_std != std:
                probe("create_switches_std")
            parser = fp.create(op[1])
            std = new_std
            clean = True
            last_failure = None
            ncreate += 1
            scope, tables = fp.tables_snapshot()
            events.append(["create", std, scope, tables])
            if scope is not None or fp.table_names():
                violate("C09.a create-does-not-reset-tables", "create", {"tables": tables})
        elif op[0] == "create_bad":
            before = (fp.tables_snapshot(), _registry_digest())
            try:
                fp.create(op[1])
                violate("C09.d invalid-standard-accepted", "create", {"std": op[1]})
            except ValueError:
                pass
            except BaseException as err:  # noqa: B902
                violate("C09.d invalid-standard-wrong-exception", type(err).__name__, {})
            # create() clears the tables before validating the name (by reading the code, that
            # is the shipped behaviour); the registry must be untouched.  A cleared table set
            # only matters in the unclean state, where nothing is compared afterwards.
            after = (fp.tables_snapshot(), _registry_digest())
            events.append(["create_bad", op[1], before[1] == after[1]])
            if before[1] != after[1]:
                violate("C09.d invalid-standard-changes-registry", "create", {"std": op[1]})
        elif op[0] == "parse":
            text = pool[op[1]]
            key = op_ref_key[k]
            want = refs[key]["outcome"]
            before_scope, before_tables = fp.tables_snapshot()
            names_before = fp.table_names()
            contents_before = fp.tables_contents()
            if prev_parse_key == op[1]:
                probe("same_unit_name_consecutive")
            prev_parse_key = op[1]
            if op[3] == "file":
                reader = fp.make_reader("file", op[1], op[2], fs=fs, stats=stats)
            else:
                reader = fp.make_reader(op[3], text, op[2], stats=stats, stream=op[4])
            outcome, tree, exc = fp.parse_with(parser, reader, want_tree=True)
            after_scope, after_tables = fp.tables_snapshot()
            events.append(["parse", op[1], op[3], op[4], fp.outcome_digest(outcome), clean,
                           after_scope, after_tables])
            failed = outcome[0] != "ok"
            if outcome[0] == "exit":
                probe("exit_trapped")
            if "fparser2:main_program" in after_tables or (
                    failed and not text.lstrip().lower().startswith(("program", "module",
                                                                     "subroutine", "function"))):
                probe("main_program0_path")
            if clean:
                probe("compared_in_clean_state")
                if last_failure is not None:
                    probe("compared_after_failure")
                    had_failure_then_compare = True
                if "block:" in (want[1] if want[0] == "ok" else "") and \
                        _block_counter() > 0:
                    probe("block_counter_nonzero_at_compare")
                if want[0].startswith("ref-"):
                    pass  # reference itself failed (timeout): nothing to compare
                elif not fp.same_outcome(outcome, want):
                    if before_scope is not None:
                        site = "leftover-open-scope:%s" % _scope_pattern(before_scope)
                    elif names_before:
                        site = "leftover-tables:%s" % ",".join(sorted({_scope_pattern(n) for n in
                                                                        names_before}))
                    else:
                        site = "no-visible-leftover/prev=%s" % (
                            "failure" if last_failure is not None else "create")
                    violate("C09.a outcome-depends-on-history", site,
                            {"op": k, "program": op[1], "got": fp.outcome_digest(outcome),
                             "want": fp.outcome_digest(want), "history": ops[:k + 1]})
            if failed:
                if op[4]:
                    probe("stream_fault_failure")
                if not clean:
                    probe("failure_in_unclean_state")
                if _max_scope_depth_names(text) >= 2:
                    probe("failing_parse_scope_depth_ge2")
                first = text.lstrip().lower().split("\n")[0].split("(")[0].split()
                if len(first) >= 2 and first[-1] in [n.strip().lower() for n in names_before]:
                    probe("failing_parse_while_like_named_table_exists")
                how = outcome[0] + (":" + outcome[1] if outcome[0] == "exit" else "")
                polluted = before_scope is not None  # an earlier op already left a scope open
                if after_scope is not None and not polluted:
                    violate("C09.b scope-left-open-after-failing-parse",
                            "%s/%s" % (_scope_pattern(after_scope), how),
                            {"op": k, "program": op[1], "scope": after_scope, "text": text[:400]})
                if after_tables != before_tables and not polluted:
                    names_after = fp.table_names()
                    removed = sorted(set(names_before) - set(names_after))
                    added = sorted(set(names_after) - set(names_before))
                    if removed and not added:
                        site = "removed-preexisting-table-named-like-a-unit-of-the-failing-source"
                    elif added:
                        site = "table-added:%s/%s" % (
                            ",".join(sorted({_scope_pattern(n) for n in added})), how)
                    else:
                        site = "tables-text-changed"
                    violate("C09.b tables-changed-by-failing-parse", site,
                            {"op": k, "program": op[1], "removed": removed, "added": added,
                             "text": text[:400]})
                elif not polluted:
                    contents_after = fp.tables_contents()
                    if contents_after != contents_before:
                        violate("C09.b tables-changed-by-failing-parse",
                                "entries-left-in-preexisting-table/%s" % how,
                                {"op": k, "program": op[1], "before": contents_before[:600],
                                 "after": contents_after[:600], "text": text[:400]})
                last_failure = outcome
            else:
                clean = False
                trees.append(tree)
        elif op[0] == "fs_write" and fs is not None:
            fs.write(op[1], op[2].encode("utf-8"))
            probe("file_system_changed_between_parses")
            events.append(["fs_write", op[1]])
        elif op[0] == "fs_delete" and fs is not None:
            fs.remove(op[1])
            probe("file_system_changed_between_parses")
            events.append(["fs_delete", op[1]])
        elif op[0] == "rule":
            from fparser.two import Fortran2003

            cls = getattr(Fortran2003, op[1])
            try:
                obj = cls(op[2])
                res = ["ok", repr(obj)]
            except BaseException as err:  # noqa: B902
                res = ["raise", type(err).__name__]
            events.append(["rule", op[1], res])
        elif op[0] == "api":
            import fparser.api

            probe("fparser1_interleaved")
            try:
                blk = fparser.api.parse(pool[op[1]], isfree=True, isstrict=False)
                # the header comment line carries the reader's name (an object address or
                # "string-<hash(text)>"): process-dependent by design, not an observation
                body = "\n".join(ln for ln in str(blk).split("\n")
                                 if not ln.lstrip().startswith("!BEGINSOURCE"))
                res = ["ok", fp.sha(body)]
            except BaseException as err:  # noqa: B902
                res = ["raise", type(err).__name__]
            events.append(["api", op[1], res])
        elif op[0] == "print" and op[1] < len(trees):
            tr = trees[op[1]]
            from fparser.two.utils import walk

            events.append(["print", fp.sha(str(tr)), fp.sha(fp.renumber_blocks(repr(tr))),
                           len(walk(tr))])
        elif op[0] == "edit" and op[1] < len(trees):
            from fparser.two.Fortran2003 import Name
            from fparser.two.utils import walk

            names = walk(trees[op[1]], Name)
            if names:
                names[len(names) // 2].string = "edited_name"
            events.append(["edit", len(names)])
        elif op[0] == "evict":
            events.append(["evict", _evict_memo()])
        scope, tables = fp.tables_snapshot()
        msize = _memo_size()
        state_keys.add((std, clean, _scope_pattern(scope),
                        tuple(sorted({_scope_pattern(n) for n in fp.table_names()})),
                        0 if msize <= 0 else len(str(msize))))
    state_keys.add(("seq",) + tuple(kinds_seq[:6]))
    stats["logical"]["ops"] = len(ops)
    if fs is not None:
        fs.uninstall()
    return {"events": events, "violations": violations, "stats": stats,
            "nontrivial": had_failure_then_compare or ncreate >= 2,
            "state_keys": [list(map(str, s)) for s in sorted(state_keys, key=str)],
            "discarded": None}


def _block_counter():
    from fparser.two.Fortran2008.block_stmt_r808 import Block_Stmt

    return Block_Stmt.counter


def _registry_digest():
    from fparser.two.utils import Base

    return fp.sha(repr(sorted((k, [c.__module__ + "." + c.__name__ for c in v])
                              for k, v in Base.subclasses.items())))


def _ref_lines_child(arg):
    std, text, opts, stream = arg
    host.install_log_counter()
    parser = fp.create(std)
    reader = fp.make_reader("lines", text, opts, stats=host.new_stats(), stream=stream)
    outcome, _, _ = fp.parse_with(parser, reader)
    return {"outcome": outcome}


def _ref_lines(std, text, opts, stream):
    from ..kit import forkrun

    doc = forkrun.call_in_child(_ref_lines_child, (std, text, opts, stream), 60.0)
    if doc.get("status") != forkrun.STATUS_OK:
        return {"outcome": ["ref-" + str(doc.get("status")), doc.get("error", "")]}
    return doc["value"]


# --------------------------------------------------------------------------- shrinking
def shrink_candidates(case):
    import copy

    ops = case["ops"]
    # drop one op (never the first create)
    for k in range(len(ops) - 1, 0, -1):
        c = copy.deepcopy(case)
        del c["ops"][k]
        if any(o[0] == "parse" for o in c["ops"]):
            yield c
    # simplify parse ops
    for k, op in enumerate(ops):
        if op[0] == "parse" and (op[3] != "string" or op[2] != {"ignore_comments": True}):
            c = copy.deepcopy(case)
            c["ops"][k] = ["parse", op[1], {"ignore_comments": True}, "string", None]
            yield c
    # drop unused pool entries
    used = {op[1] for op in ops if op[0] in ("parse", "api")}
    if set(case["pool"]) - used:
        c = copy.deepcopy(case)
        c["pool"] = {k: v for k, v in case["pool"].items() if k in used}
        yield c
    # shrink programs line by line
    for key in sorted(used):
        lines = case["pool"][key].split("\n")
        n = len(lines)
        chunk = max(1, n // 2)
        while chunk >= 1:
            for start in range(0, n, chunk):
                if n - chunk < 1:
                    continue
                c = copy.deepcopy(case)
                c["pool"][key] = "\n".join(lines[:start] + lines[start + chunk:])
                yield c
            if chunk == 1:
                break
            chunk //= 2

"""C12 -- the reader delivers each logical line once, in order, with exact line
numbers; get/put histories leave the stream unchanged.

System under simulation: the real FortranStringReader / FortranFileReader(path) /
FortranFileReader(file-like) over a simulated raw byte stream (short reads), consumed
by a simulated client that reads ahead and restores.  Reference model: the expected
item list known by construction (fgen + layout) and a list-and-cursor model of the
stream.
"""
from ..gen import fgen, layout
from ..kit import fp, host, rng

ID = "C12"
hang_is_violation = False

TIERS = {
    "quick": {"budget_s": 55, "size": (4, 30), "walk_ops": 40, "determinism_every": 40},
    "thorough": {"budget_s": 900, "size": (4, 70), "walk_ops": 120, "determinism_every": 200,
                 "determinism_max": 200},
}

RULE = ("one run = one generated statement list (fgen) rendered with a seeded layout (free or "
        "fixed form; continuations at token boundaries / inside literals / inside names, "
        "leading-& choice, comment and blank lines inside continuations, trailing comments, "
        "';' joins, cpp lines, case mix), read through one of three reader kinds over a "
        "simulated byte stream (short reads, CRLF, missing final newline, EOF at line k) and "
        "consumed by a seeded get/next/restore walk; a run is non-trivial if the layout used "
        ">=1 continuation or ';' join or comment and the walk restored >=1 item; distinct = "
        "distinct event-log digest (sha256 over every item signature delivered and every "
        "model comparison)")
ASSUMPTIONS = [
    "expected items are derived from the generator's own token lists, not from fparser",
    "text is compared modulo blanks outside character literals; case outside literals is "
    "folded only for ';'-split items (the reader lower-cases those by design)",
    "comments are checked for conservation (multiset of non-empty texts), not for position",
    "a run whose detected source form differs from the intended one is discarded (C05's "
    "question), never flagged",
]
COMPONENTS = {
    "real": ["fparser.common.readfortran (all reader classes)", "fparser.common.sourceinfo",
             "fparser.common.splitline", "CPython io.TextIOWrapper/BufferedReader + codecs"],
    "stub": ["file system (SimFS)", "raw byte stream (SimRaw: short reads, EOF)",
             "the consumer (seeded walk instead of the parser)"],
}
PROBES = ["empty_statement_between_semicolons", "resolved_include_in_stream", "tab_indent", "trailing_whitespace", "label_leading_zeros", "restore_across_semi_split", "restore_comment_inside_continuation",
          "literal_continued_over_3_lines", "fixed_comment_between_continuations",
          "short_read_inside_line", "cont_col1_no_amp", "eof_inside_statement",
          "walk_restored_all", "cut_word", "cut_lit"]
STATE_MEASURE = ("distinct (form, reader kind, look-ahead depth, restored count, classes of the "
                 "items in the window, ';'-sibling in window) tuples over all walk steps")


# --------------------------------------------------------------------------- generation
def generate(run_seed, cfg):
    st = rng.Streams(run_seed)
    sw = st("swarm")
    form = "fixed" if sw.random() < 0.35 else "free"
    std = "f2008" if sw.random() < 0.5 else "f2003"
    size = sw.randrange(cfg["size"][0], cfg["size"][1] + 1)
    stmts = fgen.generate(st("workload"), std, size, max_depth=sw.randrange(1, 4))
    lay = st("layout")
    if form == "free":
        opts = {"max_cuts": sw.choice([0, 1, 2, 3, 5]), "comments": sw.choice([0, 0.1, 0.3]),
                "semi": sw.choice([0, 0.1, 0.3]), "lead_amp": sw.choice([0.0, 0.5, 1.0]),
                "indent": sw.choice([0, 2, 3]), "base_indent": sw.choice([0, 1, 1, 2, 4]),
                "casemix": sw.choice([0, 0, 0.3]), "blank": sw.choice([0, 0.1]),
                "cpp": sw.choice([0, 0, 0.08]), "trail": sw.choice([0, 0.15, 0.4]),
                "cont_comment": sw.choice([0, 0.2, 0.5]),
                "literal_cut": sw.random() < 0.8, "token_cut": sw.random() < 0.6,
                "tabs": sw.choice([0, 0, 0.2]), "trailing_ws": sw.choice([0, 0, 0.3]),
                "label_zeros": sw.choice([0, 0.5]), "empty_stmt": sw.choice([0, 0, 0.4])}
        rend = layout.render_free(stmts, lay, opts)
    else:
        opts = {"wrap": sw.choice([72, 72, 60, 40]), "comments": sw.choice([0, 0.1, 0.3]),
                "semi": sw.choice([0, 0.1]), "max_cuts": sw.choice([0, 1, 2, 4]),
                "casemix": sw.choice([0, 0, 0.3]), "cont_comment": sw.choice([0, 0.2, 0.5]),
                "trail": sw.choice([0, 0.1, 0.3]), "cpp": 0,
                "literal_cut": sw.random() < 0.8}
        rend = layout.render_fixed(stmts, lay, opts)
    nl = "\r\n" if sw.random() < 0.15 else "\n"
    final_nl = sw.random() < 0.85
    kind = sw.choice(["string", "file", "filelike"])
    faults = {}
    if kind != "string" and sw.random() < 0.7:
        faults["short"] = [sw.choice([1, 2, 3, 7, 16, 61, 200]) for _ in range(sw.randrange(1, 5))]
    eof_at = None
    if sw.random() < 0.2 and len(rend.lines) > 2:
        eof_at = sw.randrange(1, len(rend.lines))
    # include variant: a contiguous run of statement groups (with the comment / blank lines
    # before each) moves into frag.inc, which resolves through the default include path; items
    # delivered from the nested reader carry file-relative spans, known by construction
    include = None
    items = rend.items
    exp_comments = rend.comments
    comment_lines = rend.comment_lines
    lines_all = rend.lines
    if sw.random() < 0.18 and len({tuple(e["span"]) for e in items}) >= 3:
        spans = sorted({tuple(e["span"]) for e in items})
        ga = sw.randrange(0, len(spans) - 1)
        gb = min(len(spans) - 2, ga + sw.choice([0, 1, 2, 5]))
        la = (spans[ga - 1][1] + 1) if ga > 0 else 1          # first moved line (1-based)
        lb = spans[gb][1] if gb < len(spans) - 1 else len(lines_all)
        if gb < len(spans) - 1 and la <= lb:
            frag = lines_all[la - 1:lb]
            inc_line = ("      " if form == "fixed" else " " * sw.choice([0, 1, 3])) + \
                sw.choice(["include", "INCLUDE"]) + " 'frag.inc'"
            moved = lb - la + 1
            new_items = []
            for e in items:
                a, b = e["span"]
                if b < la:
                    new_items.append(e)
                elif a >= la and b <= lb:
                    new_items.append(dict(e, span=[a - la + 1, b - la + 1], included=True))
                else:
                    new_items.append(dict(e, span=[a - moved + 1, b - moved + 1]))
            items = new_items
            lines_all = lines_all[:la - 1] + [inc_line] + lines_all[lb:]
            comment_lines = None
            include = {"frag.inc": frag}
            eof_at = None
    # the consumer's walk
    w = st("walk")
    walk = []
    for _ in range(cfg["walk_ops"]):
        r = w.random()
        if r < 0.55:
            walk.append(["get"] if w.random() < 0.7 else ["next"])
        elif r < 0.95:
            walk.append(["restore", w.randrange(0, 7)])
        else:
            walk.append(["restore", -1])  # everything obtained so far
    walk.append(["drain"])
    return {
        "prop": ID, "form": form, "std": std, "layout_opts": opts, "lines": lines_all,
        "expected": items, "expected_comments": exp_comments,
        "comment_lines": comment_lines, "include": include,
        "layout_features": rend.features, "newline": nl, "final_newline": final_nl,
        "reader": kind, "faults": faults, "eof_at": eof_at,
        "ignore_comments": sw.random() < 0.5, "walk": walk,
    }


def sample_view(case):
    view = dict(case)
    view["lines"] = case["lines"][:25]
    view["expected"] = case["expected"][:6]
    view["walk"] = case["walk"][:15]
    return view


# --------------------------------------------------------------------------- execution
def item_sig(item):
    from fparser.common import readfortran as rf

    if item is None:
        return None
    if isinstance(item, rf.Comment):
        return ["Comment", item.comment, None, None, list(item.span)]
    if isinstance(item, rf.Line):
        return [type(item).__name__, item.line, item.label, item.name, list(item.span)]
    return [type(item).__name__, repr(item), None, None, list(getattr(item, "span", ()))]


def build_text(case):
    lines = case["lines"]
    if case.get("eof_at") is not None:
        lines = lines[: case["eof_at"]]
    text = case["newline"].join(lines)
    if case["final_newline"] or not lines:
        text += case["newline"]
    return text


def open_reader(kind, text, case, fs):
    opts = {"ignore_comments": case["ignore_comments"]}
    if kind == "string":
        return fp.make_reader("string", text, opts)
    return fp.make_reader(kind, "main.f90", opts, fs=fs)


def plain_iteration(kind, text, case, fs):
    rdr = open_reader(kind, text, case, fs)
    form_free = bool(rdr.format.is_free)
    items = list(rdr)
    return rdr, form_free, items


def match_expected(sig, exp):
    """Does a delivered statement item match the expected record?"""
    cls, line, label, name, span = sig
    if exp.get("exact"):
        return cls == exp["cls"] and line.strip() == exp["text"].strip() and span == exp["span"]
    if cls != exp["cls"]:
        return False
    got = layout.squash(line)
    want = exp["text"]
    gname, wname = name, exp["name"]
    if exp["semi"]:
        got, want = layout.fold_outside_literals(got), layout.fold_outside_literals(want)
        gname = gname.lower() if gname else gname
        wname = wname.lower() if wname else wname
    return got == want and label == exp["label"] and gname == wname and span == exp["span"]


def execute(case):
    stats = host.new_stats()
    events = []
    violations = []
    state_keys = set()

    def probe(name, n=1):
        stats["probes"][name] = stats["probes"].get(name, 0) + n

    def violate(clause, site, detail):
        violations.append({"clause": clause, "site": site, "detail": detail})

    text = build_text(case)
    data = text.encode("utf-8")
    faults = {"main.f90": dict(case["faults"])} if case["faults"] else {}
    image = {"main.f90": data}
    for nm, frag in (case.get("include") or {}).items():
        ftext = case["newline"].join(frag) + case["newline"]
        image[nm] = ftext.encode("utf-8")
        if case["faults"]:
            faults[nm] = dict(case["faults"])
    fs = host.SimFS(image, faults, stats).install("c12-%d" % __import__("os").getpid())
    if case.get("include"):
        probe("resolved_include_in_stream")
    host.install_log_counter()
    try:
        kind = case["reader"]
        want_free = case["form"] == "free"
        # the detected source form is C05's question: a run whose form differs from the intended
        # one is discarded before anything is judged
        probe_rdr = open_reader("string", text, case, fs)
        if bool(probe_rdr.format.is_free) != want_free:
            return {"events": [["form-mismatch"]], "violations": [], "stats": stats,
                    "nontrivial": False, "state_keys": [],
                    "discarded": "detected-form-differs-from-intended"}
        try:
            rdr, form_free, items = plain_iteration(kind, text, case, fs)
        except SystemExit:
            import sys as _sys
            site = host.exit_site(_sys.exc_info()[2])
            if case.get("eof_at") is not None:
                # EOF inside a statement whose construct name has been read: the reader calls
                # sys.exit (C06's known finding); C12 leaves the cut statement unconstrained
                return {"events": [["exit-on-truncated-statement", site]], "violations": [],
                        "stats": stats, "nontrivial": False, "state_keys": [],
                        "discarded": "exit-on-truncated-statement"}
            violate("C12.a reader-terminates-process", site, {"lines": case["lines"][:40]})
            events.append(["exit", site])
            return {"events": events, "violations": violations, "stats": stats,
                    "nontrivial": False, "state_keys": [], "discarded": None}
        sigs = [item_sig(it) for it in items]
        events.append(["plain", kind, form_free, sigs])
        if form_free != want_free:
            return {"events": events, "violations": [], "stats": stats, "nontrivial": False,
                    "state_keys": [], "discarded": "detected-form-differs-from-intended"}
        for feat, cnt in case["layout_features"].items():
            if feat in ("cont_col1_no_amp", "cut_word", "cut_lit", "tab_indent",
                        "empty_statement_between_semicolons",
                        "trailing_whitespace", "label_leading_zeros"):
                probe(feat, cnt)
            if feat == "literal_over_3_lines" or feat == "long_stmt_with_literal":
                probe("literal_continued_over_3_lines", cnt)
            if feat == "comment_in_cont" and not want_free:
                probe("fixed_comment_between_continuations", cnt)
        if stats["faults"].get("short_read"):
            probe("short_read_inside_line", stats["faults"]["short_read"])

        # ---------------- (a) plain iteration == expected by construction
        stmt_sigs = [s for s in sigs if s[0] != "Comment"]
        exp = case["expected"]
        eof_at = case.get("eof_at")
        if eof_at is not None:
            complete = [e for e in exp if e["span"][1] <= eof_at]
            cut = [e for e in exp if e["span"][0] <= eof_at < e["span"][1]]
            if cut:
                probe("eof_inside_statement")
            # the reader may look ahead for continuation/comment lines of the last complete
            # statement; a statement whose last line is the final line before EOF is complete
            exp_use = complete
            got_use = stmt_sigs[: len(exp_use)]
            if len(stmt_sigs) < len(exp_use):
                violate("C12.a statement-lost-before-eof", "plain-iteration/%s" % case["form"],
                        {"delivered": len(stmt_sigs), "expected_complete": len(exp_use)})
        else:
            exp_use = exp
            got_use = stmt_sigs
            if len(stmt_sigs) != len(exp):
                violate("C12.a statement-count", "plain-iteration/%s" % case["form"],
                        {"delivered": len(stmt_sigs), "expected": len(exp),
                         "first_delivered": stmt_sigs[:3]})
        for k, (got, want) in enumerate(zip(got_use, exp_use)):
            if not match_expected(got, want):
                what = "text"
                if got[4] != want["span"]:
                    what = "span"
                elif got[2] != want["label"]:
                    what = "label"
                elif (got[3] or "").lower() != (want["name"] or "").lower():
                    what = "name"
                elif got[0] != want["cls"]:
                    what = "class"
                site = "plain-iteration/%s" % case["form"]
                src_lines = (case["include"]["frag.inc"] if want.get("included") else
                             case["lines"])
                span_lines = src_lines[want["span"][0] - 1:want["span"][1]]
                if want["semi"]:
                    site += "/semi-split"
                elif case["form"] == "free" and any(
                        ln[:1] not in (" ", "&", "!", "") for ln in span_lines[1:]):
                    site += "/continuation-line-starts-in-col1-without-amp"
                if what in ("name", "label", "text") and want["name"]:
                    import re as _re
                    first_line = src_lines[want["span"][0] - 1]
                    if not _re.search(r"\b%s\s*:" % _re.escape(want["name"]), first_line):
                        # the 'name :' prefix itself is split by a continuation
                        what = "name"
                        site = "name-prefix-split-by-continuation/%s" % case["form"]
                violate("C12.a item-%s" % what, site,
                        {"index": k, "delivered": got, "expected": want,
                         "lines": span_lines})
                break
        if not case["ignore_comments"] and not violations and not case.get("include"):
            # source order between comment and statement items (weak, sound form): a comment on
            # physical line L is delivered after every statement that ends on or before L and
            # before every statement that starts after L
            last_end = 0          # largest span end of the statements delivered so far
            for k, sg in enumerate(sigs):
                if sg[0] == "Comment":
                    line_no = sg[4][0]
                    later = [t for t in sigs[k + 1:] if t[0] != "Comment" and t[4][1] <= line_no]
                    if later:
                        violate("C12.a comment-order", "comment-delivered-before-a-statement-"
                                "that-ends-on-or-before-its-line/%s" % case["form"],
                                {"comment": sg, "statement": later[0]})
                        break
                else:
                    earlier = [t for t in sigs[:k] if t[0] == "Comment" and t[1].strip()
                               and t[4][0] > sg[4][1]]
                    if earlier:
                        violate("C12.a comment-order", "comment-delivered-before-an-earlier-"
                                "statement/%s" % case["form"],
                                {"comment": earlier[0], "statement": sg})
                        break
                    last_end = max(last_end, sg[4][1])
        if eof_at is None and not case["ignore_comments"] and \
                case.get("expected_comments") is not None:
            got_c = sorted(s[1].strip() for s in sigs if s[0] == "Comment" and s[1].strip())
            want_c = sorted(c for c in case["expected_comments"] if c)
            if got_c != want_c:
                violate("C12.a comment-conservation", "plain-iteration/%s" % case["form"],
                        {"delivered": got_c[:8], "expected": want_c[:8],
                         "n_delivered": len(got_c), "n_expected": len(want_c)})

        # ---------------- (c) the three reader kinds agree
        for other in ("string", "file", "filelike"):
            if other == kind:
                continue
            _, free2, items2 = plain_iteration(other, text, case, fs)
            sigs2 = [item_sig(it) for it in items2]
            events.append(["plain", other, free2, fp.sha(repr(sigs2))])
            if free2 == form_free and sigs2 != sigs:
                k = next((i for i, (a, b) in enumerate(zip(sigs, sigs2)) if a != b),
                         min(len(sigs), len(sigs2)))
                violate("C12.c reader-kinds-disagree", "%s-vs-%s" % (kind, other),
                        {"index": k, "a": sigs[k:k + 2], "b": sigs2[k:k + 2]})

        # ---------------- (b) get/put walk vs list-and-cursor model
        rdr = open_reader(kind, text, case, fs)
        cursor = 0
        stack = []    # items obtained and not pushed back; stack[k] is stream index k
        pushed = {}   # stream index -> the object that was pushed back
        max_restored = 0
        broken = False
        for op in case["walk"]:
            if broken:
                break
            if op[0] in ("get", "next"):
                if op[0] == "get":
                    item = rdr.get_item()
                else:
                    try:
                        item = next(rdr)
                    except StopIteration:
                        item = None
                got = item_sig(item)
                want = sigs[cursor] if cursor < len(sigs) else None
                events.append([op[0], got == want, cursor])
                if got != want:
                    violate("C12.b stream-changed-by-putback", "walk/%s" % case["form"],
                            {"cursor": cursor, "delivered": got, "expected": want})
                    broken = True
                    continue
                if item is not None:
                    # identity: an item that was pushed back must come back as itself
                    if cursor in pushed and pushed.pop(cursor) is not item:
                        violate("C12.b pushed-back-item-not-returned", "walk/%s" % case["form"],
                                {"cursor": cursor})
                    stack.append(item)
                    cursor += 1
            elif op[0] == "restore":
                j = op[1]
                if j < 0 or j > len(stack):
                    j = len(stack)
                    if j:
                        probe("walk_restored_all")
                kinds = []
                spans = []
                depth = len(stack)
                for _ in range(j):
                    it = stack.pop()
                    cursor -= 1
                    rdr.put_item(it)
                    pushed[cursor] = it
                    kinds.append(sigs[cursor][0])
                    spans.append(tuple(sigs[cursor][4]))
                if j:
                    max_restored = max(max_restored, j)
                    semi_sib = False
                    if 0 < cursor < len(sigs) and sigs[cursor - 1][0] != "Comment" \
                            and sigs[cursor][0] != "Comment" \
                            and sigs[cursor - 1][4] == sigs[cursor][4]:
                        semi_sib = True
                        probe("restore_across_semi_split")
                    if "Comment" in kinds and any(
                            s[0] != "Comment" and s[4][0] != s[4][1] and s[4][0] <= sp[0] <= s[4][1]
                            for s in sigs for sp in spans):
                        probe("restore_comment_inside_continuation")
                    state_keys.add((case["form"], kind, min(depth, 8), j,
                                    tuple(sorted(set(kinds))), semi_sib))
                events.append(["restore", j, cursor])
            elif op[0] == "drain":
                rest = []
                while True:
                    item = rdr.get_item()
                    if item is None:
                        break
                    rest.append(item_sig(item))
                    if len(rest) > len(sigs) + 5:
                        break
                events.append(["drain", fp.sha(repr(rest))])
                if rest != sigs[cursor:]:
                    k = next((i for i, (a, b) in enumerate(zip(rest, sigs[cursor:])) if a != b),
                             min(len(rest), len(sigs) - cursor))
                    violate("C12.b remaining-stream-changed", "walk/%s" % case["form"],
                            {"cursor": cursor, "offset": k, "delivered": rest[k:k + 2],
                             "expected": sigs[cursor + k:cursor + k + 2]})
                cursor = len(sigs)
        stats["logical"]["ops"] = stats["logical"].get("ops", 0) + len(case["walk"])
        stats["logical"]["lines"] = stats["logical"].get("lines", 0) + len(case["lines"])
        feats = case["layout_features"]
        nontrivial = (max_restored > 0 and any(
            feats.get(k) for k in ("cut_tok", "cut_lit", "cut_word", "semi_join", "comment_line",
                                   "comment_in_cont")))
        if fs.seam_bypassed(["main.f90"]) and kind != "string":
            stats.setdefault("counters", {})["seam_bypassed"] = 1
        return {"events": events, "violations": violations, "stats": stats,
                "nontrivial": nontrivial, "state_keys": [list(k) for k in sorted(state_keys)],
                "discarded": None}
    finally:
        fs.uninstall()


# --------------------------------------------------------------------------- shrinking
def shrink_candidates(case):
    """Smaller cases: drop the walk, drop faults, drop trailing / leading lines together
    with the expectations they carry, simplify options."""
    import copy

    if case["walk"] != [["drain"]]:
        c = copy.deepcopy(case)
        c["walk"] = [["drain"]]
        yield c
        if len(case["walk"]) > 2:
            c = copy.deepcopy(case)
            half = len(case["walk"]) // 2
            c["walk"] = case["walk"][:half] + [["drain"]]
            yield c
    if case["faults"]:
        c = copy.deepcopy(case)
        c["faults"] = {}
        yield c
    if case["reader"] != "string":
        c = copy.deepcopy(case)
        c["reader"] = "string"
        c["faults"] = {}
        yield c
    if case["newline"] != "\n":
        c = copy.deepcopy(case)
        c["newline"] = "\n"
        yield c
    if case.get("eof_at") is not None:
        c = copy.deepcopy(case)
        c["eof_at"] = None
        yield c
    if case.get("include"):
        return
    # drop statement groups (all items sharing a span) anywhere: halves, quarters, ... singles;
    # the lines of the group go, later spans shift, the comment multiset is no longer checked
    exp = case["expected"]
    spans = sorted({tuple(e["span"]) for e in exp})
    n = len(spans)
    chunk = max(1, n // 2)
    while n > 1 and chunk >= 1:
        for start in range(0, n, chunk):
            drop = spans[start:start + chunk]
            if len(drop) >= n:
                continue
            c = _drop_groups(case, drop)
            if c is not None:
                yield c
        if chunk == 1:
            break
        chunk //= 2
    # drop leading / trailing lines that belong to no statement (comments, blanks)
    if spans:
        first, last = spans[0][0], spans[-1][1]
        if first > 1:
            c = _drop_groups(case, [], cut_head=first - 1)
            if c is not None:
                yield c
        if last < len(case["lines"]):
            c = copy.deepcopy(case)
            c["lines"] = case["lines"][:last]
            if case.get("expected_comments") is not None and case.get("comment_lines"):
                pairs = [(t, ln) for t, ln in zip(case["expected_comments"],
                                                  case["comment_lines"]) if ln <= last]
                c["expected_comments"] = [t for t, _ in pairs]
                c["comment_lines"] = [ln for _, ln in pairs]
            else:
                c["expected_comments"] = None
            c["eof_at"] = None
            yield c


def _drop_groups(case, drop, cut_head=0):
    import copy

    c = copy.deepcopy(case)
    gone = set()
    for a, b in drop:
        gone.update(range(a, b + 1))
    gone.update(range(1, cut_head + 1))
    if not gone:
        return None
    keep = [ln for k, ln in enumerate(case["lines"], 1) if k not in gone]
    shift = {}
    removed = 0
    for k in range(1, len(case["lines"]) + 2):
        if k in gone:
            removed += 1
        shift[k] = k - removed
    new_exp = []
    dropset = {tuple(d) for d in drop}
    for e in case["expected"]:
        if tuple(e["span"]) in dropset:
            continue
        if any(k in gone for k in range(e["span"][0], e["span"][1] + 1)):
            return None
        new_exp.append(dict(e, span=[shift[e["span"][0]], shift[e["span"][1]]]))
    if not keep or not new_exp:
        return None
    c["lines"] = keep
    c["expected"] = new_exp
    if case.get("expected_comments") is not None and case.get("comment_lines"):
        pairs = [(t, ln) for t, ln in zip(case["expected_comments"], case["comment_lines"])
                 if ln not in gone]
        c["expected_comments"] = [t for t, _ in pairs]
        c["comment_lines"] = [shift[ln] for _, ln in pairs]
    else:
        c["expected_comments"] = None
    c["eof_at"] = None
    return c

"""Random sampling of double and triple token faults over all C06 focus sources.
Usage: python tools/sweep_double.py <nproc> <samples per proc> [seed]"""
import json
import multiprocessing
import random
import signal
import sys

sys.path.insert(0, "/verif")


def work(arg):
    part, nsamples, seed = arg
    from sim.kit import fp, host, target
    target.load()
    import logging
    logging.getLogger("fparser").setLevel(logging.CRITICAL)
    from sim.props import c06
    from sim.gen import damage
    clock = host.StepClock().install()
    src = c06._focus_sources()
    r = random.Random(seed * 1000 + part)
    found = {}
    for _ in range(nsamples):
        std0, where, lines = src[r.randrange(len(src))]
        head = {"spec": "subroutine zz(u)\n", "exec": "subroutine zz(u)\nreal :: x\n",
                "program": ""}[where]
        tail = "" if where == "program" else "\nend subroutine zz\n"
        toks = damage.tokenize("\n".join(lines))
        new = list(toks)
        for _k in range(r.choice([2, 2, 3])):
            sig = [i for i, t in enumerate(new) if t.strip() and t != "\n"]
            if not sig:
                break
            i = r.choice(sig)
            op = r.choice(c06._FOCUS_OPS + ["punct:" + p for p in damage.PUNCT] +
                          ["keyword:" + k for k in damage.KEYWORDS[:20]])
            if op == "delete":
                del new[i]
            elif op == "duplicate":
                new.insert(i, new[i])
            elif op == "split":
                if len(new[i]) >= 2:
                    cut = r.randrange(1, len(new[i]))
                    new[i] = new[i][:cut] + " " + new[i][cut:]
            elif op == "head1":
                new[i] = new[i][:1]
            elif op == "drop_last":
                new[i] = new[i][:-1]
            elif op == "swap_next":
                j = r.choice(sig)
                new[i], new[j] = new[j], new[i]
            else:
                new[i] = op.split(":", 1)[1]
        text = head + "".join(new) + (tail or "\n")
        std = r.choice(["f2003", "f2008"]) if std0 == "f2003" else "f2008"
        parser = fp.create(std)
        clock.start(400000)
        signal.alarm(20)
        try:
            out, _, exc = fp.parse_with(parser, fp.make_reader("string", text,
                                                              {"ignore_comments": r.random() < 0.5}))
        except BaseException as err:
            out = ["hang", type(err).__name__]
        signal.alarm(0)
        if out[0] in ("escape", "exit", "budget", "printfail", "hang"):
            key = "|".join(str(x) for x in out[:3]) if out[0] != "budget" else "budget"
            if key not in found or len(text) < len(found[key]):
                found[key] = text
    return nsamples, found


if __name__ == "__main__":
    nproc = int(sys.argv[1])
    nsamples = int(sys.argv[2])
    seed = int(sys.argv[3]) if len(sys.argv) > 3 else 0

    def _alarm(signum, frame):
        raise TimeoutError("alarm")

    signal.signal(signal.SIGALRM, _alarm)
    with multiprocessing.get_context("fork").Pool(nproc) as pool:
        res = pool.map(work, [(p, nsamples, seed) for p in range(nproc)])
    merged = {}
    for _, found in res:
        for k, v in found.items():
            if k not in merged or len(v) < len(merged[k]):
                merged[k] = v
    print("parses:", sum(r[0] for r in res), "distinct signatures:", len(merged))
    for k in sorted(merged):
        print("==", k)
        print(merged[k])

"""One-off corpus builder: harvest Fortran snippets from the string literals of fparser's own
unit tests, keep those the parser under test accepts (as a whole source, as an execution-part
statement or as a specification-part statement), and write sim/gen/zoo_harvest.json.
The result is a static corpus; checks never run this script."""
import ast
import glob
import json
import os
import sys

sys.path.insert(0, "/verif")
from sim.kit import fp, target  # noqa: E402

target.load()
root = os.path.join(target.repo_src(), "fparser", "two", "tests")
strings = set()
for path in glob.glob(os.path.join(root, "**", "*.py"), recursive=True):
    try:
        tree = ast.parse(open(path).read())
    except SyntaxError:
        continue
    for node in ast.walk(tree):
        if isinstance(node, ast.Constant) and isinstance(node.value, str):
            text = node.value.strip("\n")
            if 3 <= len(text) <= 400 and text.count("\n") <= 12 and text.isascii():
                strings.add(text)
print("candidate strings:", len(strings))
import logging
logging.getLogger("fparser").setLevel(logging.CRITICAL)
out = {"program": [], "exec": [], "spec": []}
seen = set()


def accepted(std, text):
    try:
        parser = fp.create(std)
        res, _, _ = fp.parse_with(parser, fp.make_reader("string", text, {}))
        return res[0] == "ok" and res[2].strip() != ""
    except BaseException:
        return False


for text in sorted(strings):
    low = text.lower()
    if "include" in low or "#" in text or "\t" in text or ";" in text or "!" in text:
        continue
    key = " ".join(low.split())
    if key in seen:
        continue
    lines = [ln for ln in text.split("\n") if ln.strip()]
    if not lines or any(ln.rstrip().endswith("&") for ln in lines):
        continue
    for std in ("f2003", "f2008"):
        body = "\n".join(ln.strip() for ln in lines)
        if len(lines) >= 2 and accepted(std, body + "\n"):
            kind = "program"
        elif accepted(std, "subroutine zz(u)\nreal :: x\n" + body + "\nend subroutine zz\n") and \
                not low.lstrip().startswith(("subroutine", "function", "program", "module", "end")):
            kind = "exec"
        elif accepted(std, "subroutine zz(u)\n" + body + "\nend subroutine zz\n") and \
                not low.lstrip().startswith(("subroutine", "function", "program", "module", "end")):
            kind = "spec"
        else:
            continue
        seen.add(key)
        ent = {"std": std, "lines": [ln.strip() for ln in lines]}
        if kind == "exec":
            # usable in the middle of an execution part (i.e. not a declaration)?
            ent["in_construct"] = accepted(std, "subroutine zz(u)\nreal :: x\nif (x > 0) then\n" +
                                           body + "\nx = 2\nend if\nend subroutine zz\n")
            ent["after_exec"] = accepted(std, "subroutine zz(u)\nreal :: x\nx = 1\n" + body +
                                         "\nx = 2\nend subroutine zz\n")
        out[kind].append(ent)
        break
for k, v in out.items():
    print(k, len(v))
with open("/verif/sim/gen/zoo_harvest.json", "w") as fobj:
    json.dump(out, fobj, indent=0, sort_keys=True)

"""Exhaustive sweep of the deep-nest family of C06 (sim.props.c06._nest_case) on the current
tree: every (depth, ifs, guard, loop kind, damage, damage position) combination is parsed
under the step clock.  Reports the largest step count relative to the budget among sources
whose IF/WHERE nesting is below the known-finding threshold, and checks that every budget
overrun is classified as the known finding.

  /venv/bin/python -m tools.sweep_nest
"""
import sys
from concurrent.futures import ProcessPoolExecutor
import multiprocessing


class Fixed:
    """Stands in for the PRNG of _nest_case: replays a fixed list of choices."""

    def __init__(self, picks):
        self.picks = list(picks)

    def _next(self):
        return self.picks.pop(0)

    def randrange(self, a, b=None):
        v = self._next()
        lo, hi = (0, a) if b is None else (a, b)
        return lo + (v % (hi - lo))

    def random(self):
        return self._next()

    def choice(self, seq):
        v = self._next()
        return v if v in seq else seq[v % len(seq)]


def cases():
    from sim.props import c06
    seen = set()
    for depth in (3, 4, 5):
        for nif in (0, 1, 2, 3):
            for guard in (0.1, 0.9):
                for kind in ("labelled", "shared", "block", "named", "mixed"):
                    mixes = [[]] if kind != "mixed" else [
                        [("labelled", "block", "named")[(m // 3 ** d) % 3] for d in range(depth)]
                        for m in range(0, 3 ** depth, 7)]
                    for mix in mixes:
                        for how in ("label_char", "delete_closer", "truncate", "delete_if_end",
                                    "none"):
                            for pos in range(40 if how in ("delete_closer", "truncate",
                                                            "delete_if_end") else 1):
                                picks = [depth - 3, nif, guard, kind] + list(mix) + [how, pos]
                                case = {}
                                try:
                                    c06._nest_case(Fixed(picks + [0, 0, 0, "f2003"]), case)
                                except IndexError:
                                    continue
                                text = bytes(case["files"]["main.f90"]
                                             if not isinstance(case["files"]["main.f90"], str)
                                             else case["files"]["main.f90"].encode("latin-1"))
                                if text in seen:
                                    continue
                                seen.add(text)
                                yield text.decode("utf-8")


_CLOCK = None


def measure(text):
    from sim.kit import fp, host
    from sim.props import c06
    global _CLOCK
    if _CLOCK is None:
        _CLOCK = host.StepClock().install()
    clock = _CLOCK
    parser = fp.create("f2008")
    budget = c06._budget(text.count("\n") + 1)
    clock.start(budget)
    outcome, _, _ = fp.parse_with(parser, fp.make_reader("string", text, {"ignore_comments": True}))
    return outcome[0], clock.count, budget, c06.exp_nesting(text), text


def main():
    from sim.kit import target
    target.load()
    from sim.props import c06
    texts = list(cases())
    print("distinct sources:", len(texts))
    worst = (0.0, None)
    over_known = over_unknown = 0
    by_depth = {}
    ctx = multiprocessing.get_context("fork")
    with ProcessPoolExecutor(16, mp_context=ctx) as ex:
        for kind, count, budget, depth, text in ex.map(measure, texts, chunksize=8):
            d = by_depth.setdefault(depth, [0, 0, 0.0])
            d[0] += 1
            if kind == "budget":
                d[1] += 1
                if depth >= c06.EXP_NEST_KNOWN:
                    over_known += 1
                else:
                    over_unknown += 1
                    print("UNCLASSIFIED OVERRUN depth=%d\n%s" % (depth, text))
            else:
                d[2] = max(d[2], count / budget)
                if depth < c06.EXP_NEST_KNOWN and count / budget > worst[0]:
                    worst = (count / budget, text)
    for depth in sorted(by_depth):
        n, over, ratio = by_depth[depth]
        print("if/where nesting %2d: %5d sources, %5d over budget, worst in-budget ratio %.3f" % (
            depth, n, over, ratio))
    print("overruns classified known: %d, unclassified: %d" % (over_known, over_unknown))
    print("worst ratio below threshold: %.3f" % worst[0])
    return 1 if over_unknown else 0


if __name__ == "__main__":
    sys.exit(main())

"""Exhaustive sweep of every single-token fault over every focus source of C06 (curated zoo +
harvested corpus).  Diagnostic tool: lists the distinct escape / exit / budget signatures with
one minimal example each.  Usage: python tools/sweep_focus.py <nproc>"""
import collections
import json
import multiprocessing
import os
import signal
import sys

sys.path.insert(0, "/verif")


def work(arg):
    part, nproc = arg
    from sim.kit import fp, host, target
    target.load()
    import logging
    logging.getLogger("fparser").setLevel(logging.CRITICAL)
    from sim.props import c06
    from sim.gen import damage
    clock = host.StepClock().install()
    src = c06._focus_sources()
    found = {}
    n = 0
    for k in range(part, len(src), nproc):
        std0, where, lines = src[k]
        head = {"spec": "subroutine zz(u)\n", "exec": "subroutine zz(u)\nreal :: x\n",
                "program": ""}[where]
        tail = "" if where == "program" else "\nend subroutine zz\n"
        body = "\n".join(lines)
        toks = damage.tokenize(body)
        sig = [i for i, t in enumerate(toks) if t.strip() and t != "\n"]
        for i in sig:
            for op in c06._FOCUS_OPS:
                new = list(toks)
                if op == "delete":
                    del new[i]
                elif op == "duplicate":
                    new.insert(i, new[i])
                elif op == "duplicate2":
                    j = next((x for x in sig if x > i), None)
                    if j is None:
                        continue
                    new[i:i] = new[i:j + 1] + [" "]
                elif op == "split":
                    if len(new[i]) < 2:
                        continue
                    cut = 1 + (i + len(new[i])) % (len(new[i]) - 1)
                    new[i] = new[i][:cut] + " " + new[i][cut:]
                elif op == "head1":
                    new[i] = new[i][:1]
                elif op == "drop_last":
                    new[i] = new[i][:-1]
                elif op == "swap_next":
                    j = next((x for x in sig if x > i), None)
                    if j is None:
                        continue
                    new[i], new[j] = new[j], new[i]
                else:
                    new[i] = op.split(":", 1)[1]
                text = head + "".join(new) + (tail or "\n")
                for std in (("f2003", "f2008") if std0 == "f2003" else ("f2008",)):
                    n += 1
                    parser = fp.create(std)
                    clock.start(400000)
                    signal.alarm(20)
                    try:
                        out, _, exc = fp.parse_with(parser, fp.make_reader(
                            "string", text, {"ignore_comments": True}))
                    except BaseException as err:  # alarm
                        out = ["hang", type(err).__name__]
                    signal.alarm(0)
                    if out[0] in ("escape", "exit", "budget", "printfail", "hang"):
                        key = "|".join(str(x) for x in out[:3]) if out[0] != "budget" else "budget"
                        if key not in found or len(text) < len(found[key]):
                            found[key] = text
    return n, found


if __name__ == "__main__":
    nproc = int(sys.argv[1]) if len(sys.argv) > 1 else 8

    def _alarm(signum, frame):
        raise TimeoutError("alarm")

    signal.signal(signal.SIGALRM, _alarm)
    with multiprocessing.get_context("fork").Pool(nproc) as pool:
        res = pool.map(work, [(p, nproc) for p in range(nproc)])
    total = sum(r[0] for r in res)
    merged = {}
    for _, found in res:
        for k, v in found.items():
            if k not in merged or len(v) < len(merged[k]):
                merged[k] = v
    print("parses:", total, "distinct signatures:", len(merged))
    for k in sorted(merged):
        print("==", k)
        print(merged[k])
    json.dump(merged, open("/tmp/sweep_focus.json", "w"), indent=1)

#!/bin/sh
# Offline setup: nothing is fetched or compiled.  Verifies that /venv/bin/python imports
# fparser from /repo's current working tree (editable install -> /repo/src).
set -e
cd "$(dirname "$0")"
/venv/bin/python - <<'PY'
import os, sys
sys.path.insert(0, "/verif")
from sim.kit import target
target.load()
import fparser
print("fparser imported from", os.path.dirname(fparser.__file__))
PY
mkdir -p evidence replays
